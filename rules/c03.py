"""C03 — fitting is reproducible: no unsanitised source of nondeterminism reaches a result."""
from __future__ import annotations

import ast

from engine import boolalg
from typing import Dict, List, Optional, Set, Tuple

from engine.cfg import CFG
from engine.consteval import ConstEval
from engine.dataflow import Origins, ReachingDefs, backward_slice_exprs, FRESH
from engine.index import AnalysisError, FuncInfo, calls_in, const_str, is_self_attr, kwarg, unparse, walk_no_nested
from rules.common import (BILLING_DATA, BILLING_MODEL, CALTRACK_DATA, CALTRACK_WRAPPER, DAILY_DATA, DAILY_MODEL, HOURLY_DATA, HOURLY_MODEL,
                          WEIGHTED_MODEL, method)

# callables that consume a random_state (G7).  value: how the consumer is recognised.
RNG_CONSUMERS = {"ElasticNet", "BisectingKMeans", "KMeans", "MiniBatchKMeans", "IterativeImputer", "RandomForestRegressor", "train_test_split",
                 "_bisect_k_means.BisectingKMeans", "Lasso", "SGDRegressor", "TruncatedSVD", "GaussianMixture"}
# consumers that are deterministic in the configuration used (exception table: one named call each, with the structural condition that keeps it so)
CONDITIONALLY_DETERMINISTIC = {
    "PCA": "PCA(n_components=<float in (0,1)>) selects the full SVD solver (no randomised solver, no random_state use)",
    "KernelPCA": "KernelPCA(n_components=None) uses the dense eigensolver (random_state only matters for arpack/randomized)",
    "silhouette_score": "sample_size=10_000 never subsamples here: the input has at most 12 x 7 = 84 rows (one per (month, weekday) cell); tied to the literal staying > 84",
    "_metrics.silhouette_score": "same as silhouette_score",
}
STOCHASTIC_ALGOS = ("rand", "crs2", "mlsl", "isres", "esch", "stogo")
ORDER_INSENSITIVE_SET_USES = {"sorted", "len", "min", "max", "sum", "any", "all", "bool", "frozenset", "set"}


def _roots(chk) -> List[FuncInfo]:
    roots = []
    for mc in (DAILY_MODEL, BILLING_MODEL, WEIGHTED_MODEL, HOURLY_MODEL, CALTRACK_WRAPPER):
        c = chk.repo.cls(*mc)
        for nm in ("fit", "predict", "__init__", "to_dict", "from_dict"):
            m = chk.res.find_method(c, nm)
            if m is not None:
                roots.append(m)
    for mod in (DAILY_DATA, BILLING_DATA, HOURLY_DATA, CALTRACK_DATA):
        for c in chk.repo.module(mod).classes.values():
            for nm in ("__init__", "from_series"):
                if nm in c.methods:
                    roots.append(c.methods[nm])
    # settings validators run at construction
    hs = chk.repo.module("opendsm.eemeter.models.hourly.settings")
    for c in hs.classes.values():
        roots += list(c.methods.values())
    return roots


def _is_set_expr(e: ast.AST, setnames: Set[str]) -> bool:
    if isinstance(e, (ast.Set, ast.SetComp)):
        return True
    if isinstance(e, ast.Call):
        if isinstance(e.func, ast.Name) and e.func.id in ("set", "frozenset"):
            return True
        if isinstance(e.func, ast.Attribute) and e.func.attr in ("intersection", "union", "difference", "symmetric_difference") and _is_set_expr(e.func.value, setnames):
            return True
    if isinstance(e, ast.BinOp) and isinstance(e.op, (ast.Sub, ast.BitAnd, ast.BitOr, ast.BitXor)) and (_is_set_expr(e.left, setnames) or _is_set_expr(e.right, setnames)):
        return True
    if isinstance(e, ast.Name) and e.id in setnames:
        return True
    return False


def run(chk):
    chk.explanation = (
        "Inventory of nondeterminism sources in every function reachable (resolved call graph) from the fit / predict / constructor / "
        "serialisation entry points of all model families and data classes: RNG calls and random_state consumers, clocks, hash-order "
        "exposure of sets, process-global mutable state.  Each source must be structurally sanitised: seed def-use chain to the "
        "settings seed, guard `seed is None`, direct sorted(...) or order-insensitive use of a set, clock values flowing only to "
        "non-serialised attributes, mutable defaults never mutated.  Default optimiser algorithms must be deterministic ones; thread "
        "pins and private optimiser start vectors are checked.")
    chk.not_decided += ["bit-reproducibility of BLAS / numba JIT caches / NLopt across processes and thread counts (library internals)",
                        "nondeterminism inside third-party estimators beyond their documented random_state parameter"]
    chk.trusted += ["the table of random_state consumers (RNG_CONSUMERS) and of conditionally deterministic calls in rules/c03.py", "iteration order of dict and list is deterministic; of set it is not (string hashing is per process)"]
    r1a = chk.rule("R03.1a", "RNG: every np.random / random call is guarded by `seed is None`; every random_state consumer is seeded from the settings seed; default algorithms are deterministic", 6)
    r1b = chk.rule("R03.1b", "clocks: timer()/time.*/datetime.now values reach only non-serialised attributes", 2)
    r1c = chk.rule("R03.1c", "hash order: no list()/iteration/indexing of a set reaches a result unless sorted or order-insensitive", 8)
    r1d = chk.rule("R03.1d", "process-global state: no mutation of module globals / class attributes / mutable default arguments on fit or predict paths", 4)
    r2 = chk.rule("R03.2", "pins: BisectingKMeans.fit forces one thread; *_NUM_THREADS are set before the first numeric import of hourly/model.py", 4)
    r3 = chk.rule("R03.3", "optimiser start vectors mutated by obj_fcn_dec's closure are private fresh arrays", 3)

    roots = _roots(chk)
    reach = chk.res.reachable(roots, conservative=True)
    reach_keys = {f.key for f in reach}
    if len(reach) < 150:
        raise AnalysisError(f"only {len(reach)} functions reachable from the fit/predict roots; call-graph resolution regressed")

    # ------------------------------------------------------------------ R03.1a
    n_rng = 0
    for f in reach:
        cfg = None
        rd = None
        for c in calls_in(f.node):
            fn = unparse(c.func)
            ext = chk.res.ext_name(f.module, c.func) or ""
            is_rng = ext.startswith("numpy.random") or ext.startswith("random.") or fn.startswith("np.random.") or fn in ("default_rng", "np.random.default_rng")
            st = f.module.enclosing_stmt(c)
            if is_rng:
                n_rng += 1
                cfg = cfg or CFG(f.node)
                g = cfg.guards(st) if st is not None and id(st) in cfg.g else []
                # the condition under which the call is evaluated: statement guards plus the enclosing conditional expressions /
                # short-circuit operators; it must imply `seed is None` (a truthiness test lets seed=0 through)
                conds = list(g)
                cur, par = c, f.module.parent(c)
                while par is not None and not isinstance(par, ast.stmt):
                    if isinstance(par, ast.IfExp):
                        if cur is par.body:
                            conds.append((par.test, True))
                        elif cur is par.orelse:
                            conds.append((par.test, False))
                    elif isinstance(par, ast.BoolOp) and cur in par.values:
                        i_ = par.values.index(cur)
                        for prev in par.values[:i_]:
                            conds.append((prev, isinstance(par.op, ast.And)))
                    cur, par = par, f.module.parent(par)

                def _seed_atom(e):
                    z, neg = boolalg.strip_truthiness(e)
                    t_ = unparse(z)
                    if t_ in ("self.seed", "seed", "self._seed"):
                        return ("truthy", neg)
                    if isinstance(z, ast.Compare) and len(z.ops) == 1 and unparse(z.left) in ("self.seed", "seed") and unparse(z.comparators[0]) == "None":
                        o_ = type(z.ops[0])
                        if o_ in (ast.Is, ast.Eq):
                            return ("none", neg)
                        if o_ in (ast.IsNot, ast.NotEq):
                            return ("none", not neg)
                    return None
                ok = False
                try:
                    rows = boolalg.conj_table(conds, _seed_atom, ["none", "truthy"], ignore_unrecognised=True)
                    # feasible seed states: None (none, not truthy), 0 (not none, not truthy), other ints (not none, truthy)
                    ok = not rows[(False, False)] and not rows[(False, True)] and any(_seed_atom(t) is not None or True for t, _p in conds) and bool(conds) \
                        and any(boolalg.mentions_only_atoms(t, _seed_atom) for t, _p in conds)
                except boolalg.Unrecognised:
                    ok = False
                r1a.require(ok, f"{f.key}|rng:{fn}", f.where(c), f"{f.qualname} draws from the global RNG (`{unparse(c)[:60]}`) outside a `seed is None` guard: same data and seed no longer give the same model",
                            sample={"function": f.qualname, "call": unparse(c)[:60], "guard": [unparse(t) for t, p in g]})
                continue
            short = fn.split(".")[-1]
            if fn in RNG_CONSUMERS or short in RNG_CONSUMERS:
                n_rng += 1
                rs = kwarg(c, "random_state")
                rd = rd or ReachingDefs(f.node)
                ok = False
                if rs is not None:
                    txt = " ".join(unparse(x) for x in backward_slice_exprs(rd, st, rs, 4))
                    ok = "_seed" in txt or any(isinstance(n, ast.Name) and n.id == "seed" and "seed" in f.params for n in ast.walk(rs)) or "seed" in txt and "None" not in unparse(rs)
                    if isinstance(rs, ast.Constant) and rs.value is None:
                        ok = False
                r1a.require(ok, f"{f.key}|random_state:{short}", f.where(c),
                            f"{f.qualname}: `{short}(...)` consumes a random_state but " + ("none is passed" if rs is None else f"`{unparse(rs)}` is not derived from the settings seed"),
                            sample={"function": f.qualname, "consumer": short, "random_state": unparse(rs) if rs is not None else None})
            elif fn in CONDITIONALLY_DETERMINISTIC or short in CONDITIONALLY_DETERMINISTIC:
                n_rng += 1
                name = short if short in CONDITIONALLY_DETERMINISTIC else fn
                ok = True
                why = CONDITIONALLY_DETERMINISTIC[name]
                if name == "PCA":
                    nc = kwarg(c, "n_components")
                    ok = kwarg(c, "random_state") is not None or (kwarg(c, "svd_solver") is None or const_str(kwarg(c, "svd_solver")) in ("full", "covariance_eigh")) and nc is not None
                    if ok and kwarg(c, "svd_solver") is not None and const_str(kwarg(c, "svd_solver")) in ("randomized", "arpack"):
                        ok = False
                if name == "KernelPCA":
                    es = kwarg(c, "eigen_solver")
                    ok = kwarg(c, "random_state") is not None or es is None or const_str(es) == "dense"
                if "silhouette_score" in name:
                    ss = kwarg(c, "sample_size")
                    v = None
                    try:
                        v = ConstEval(chk.res, f.module).ev(ss) if ss is not None else None
                    except Exception:
                        pass
                    ok = kwarg(c, "random_state") is not None or ss is None or (isinstance(v, int) and v > 84)
                r1a.require(ok, f"{f.key}|conditional:{name}", f.where(c), f"{f.qualname}: `{unparse(c)[:70]}` is only deterministic while: {why}",
                            sample={"function": f.qualname, "call": name, "deterministic_because": why})
    # default algorithm choices are deterministic
    for mod, cls, field in (("opendsm.eemeter.models.daily.utilities.settings", "DailySettings", "algorithm_choice"),
                            ("opendsm.eemeter.models.daily.utilities.settings", "DailySettings", "initial_guess_algorithm_choice"),
                            ("opendsm.eemeter.models.daily.utilities.opt_settings", "OptimizationSettings", "algorithm")):
        c = chk.repo.cls(mod, cls)
        hit = chk.res.find_attr(c, field)
        val = None
        if hit and isinstance(hit[1][1], ast.Call):
            d = kwarg(hit[1][1], "default")
            try:
                val = ConstEval(chk.res, hit[0].module).ev(d)
            except Exception:
                val = None
        ok = isinstance(val, str) and not any(s in val.lower() for s in STOCHASTIC_ALGOS)
        r1a.require(ok, f"{c.key}.{field}|deterministic-default", c.module.rel, f"default {cls}.{field} = {val!r} must be a deterministic algorithm (not *_rand*, crs2, mlsl, isres, esch, stogo)",
                    sample={"setting": f"{cls}.{field}", "default": val})
    # hourly seed plumbing: _check_seed propagates the seed to elasticnet and temporal_cluster
    cs = chk.repo.func("opendsm.eemeter.models.hourly.settings", "BaseHourlySettings._check_seed")
    # interpreted for an explicit seed (0 included) and for none: the effective seed is the user's, or one fresh draw, and reaches both consumers
    from engine.absint import AbsObj, ModuleEnv
    from engine.pyinterp import Function, Interp, InterpRaised, Stub, StubCall, Unsupported
    for given in (7, 0, None):
        draws = []

        class _RNG(Stub):
            @staticmethod
            def randint(*a, **k):
                draws.append(a)
                return f"<draw {len(draws)}>"

        class _NP(Stub):
            random = _RNG()
            int64 = "int64"
        me = AbsObj({"BaseHourlySettings"}, seed=given, elasticnet=AbsObj({"ElasticNetSettings"}), temporal_cluster=AbsObj({"TemporalClusterSettings"}))
        it = Interp(step_limit=5_000)
        key = f"{cs.key}|seed-propagation|seed={given}"
        try:
            Function(cs.node, ModuleEnv(chk.repo, cs.module, it, {"np": _NP(), "numpy": _NP()}), it)(me)
        except InterpRaised as e:
            r1a.require(False, key, cs.where(), f"_check_seed raises {e.exc_name} for seed={given}")
            continue
        except Unsupported as e:
            raise AnalysisError(f"{cs.key}: outside the interpreted subset: {e}")
        eff = me.__dict__.get("_seed")
        want = given if given is not None else "<draw 1>"
        got = (eff, me.elasticnet.__dict__.get("_seed"), me.temporal_cluster.__dict__.get("_seed"), len(draws))
        r1a.require(got == (want, want, want, 0 if given is not None else 1), key, cs.where(),
                    f"BaseHourlySettings._check_seed(seed={given}): the effective seed must be {'the seed given' if given is not None else 'one fresh draw'} and be copied to the elasticnet and "
                    f"temporal_cluster settings; found _seed={got[0]!r}, elasticnet._seed={got[1]!r}, temporal_cluster._seed={got[2]!r}, random draws={got[3]}", sample={"seed": given})
    # the nested settings objects the seed is written onto must be fresh per settings object: a `default=<instance>` of a frozen (hashable)
    # pydantic model is shared by every settings object built without that field, so the seed of whichever was built last is used by all
    recv = sorted(n for n, v in me.__dict__.items() if isinstance(v, AbsObj) and "_seed" in v.__dict__)
    bhs = chk.repo.cls("opendsm.eemeter.models.hourly.settings", "BaseHourlySettings")
    subclasses = [c for m_ in chk.repo.modules.values() for c in m_.classes.values() if bhs in chk.res.mro(c)]
    for c in subclasses:
        for fld in recv:
            if fld not in c.attrs:
                continue
            ann, val, st_ = c.attrs[fld]
            how = "no default"
            fresh = True
            if val is not None:
                if isinstance(val, ast.Call) and unparse(val.func).split(".")[-1] in ("Field", "CustomField"):
                    kws = {k.arg: k.value for k in val.keywords if k.arg}
                    if "default_factory" in kws:
                        how = f"default_factory={unparse(kws['default_factory'])}"
                    elif "default" in kws or val.args:
                        dv = kws.get("default", val.args[0] if val.args else None)
                        how = f"default={unparse(dv)}"
                        fresh = isinstance(dv, ast.Constant) and dv.value is None
                    else:
                        how = "Field() without default"
                else:
                    how = f"= {unparse(val)[:40]}"
                    fresh = isinstance(val, ast.Constant)
            r1a.require(fresh, f"{c.key}.{fld}|per-instance-default", c.module.rel,
                        f"{c.name}.{fld} receives the effective seed from _check_seed but is declared with {how}: one object shared by every settings instance built without it, "
                        f"so a model is seeded with the seed of whichever settings object was constructed last (use default_factory)", sample={"field": f"{c.name}.{fld}", "declared": how})
    # the cluster call receives settings._seed in the seed position
    hm = chk.repo.cls(*HOURLY_MODEL)
    acf = method(chk, hm, "_add_categorical_features")
    from engine.pattern import Expander
    from rules.common import bind_call
    ctf = chk.repo.func(HOURLY_MODEL[0], "_cluster_temporal_features")
    seed_param = [p for p in ctf.params if "seed" in p.lower() or p == "random_state"]
    if len(seed_param) != 1:
        raise AnalysisError(f"_cluster_temporal_features: expected one seed parameter, found {seed_param}")
    sites = [(f, c) for f in [acf] + [g for g in acf.module.all_funcs if g.parent_func is acf] for c in calls_in(f.node) if isinstance(c.func, ast.Name) and c.func.id == "_cluster_temporal_features"]
    seeded = bool(sites)
    found = []
    for f, c in sites:
        b = bind_call(c, ctf)
        e = b.get(seed_param[0]) if b else None
        full = unparse(Expander(f.node, through_updates=True).expand(e, f.module.enclosing_stmt(c), depth=6)) if e is not None else None
        found.append(full)
        seeded = seeded and full in ("self.settings.temporal_cluster._seed", "self.settings._seed")
    r1a.require(seeded, f"{acf.key}|cluster-seed", acf.where(), f"_cluster_temporal_features must be given the settings' seed (settings.temporal_cluster._seed) as `{seed_param[0]}`; found {found}")

    # ------------------------------------------------------------------ R03.1b clocks
    serialised_attrs: Set[str] = set()
    for mc in (DAILY_MODEL, HOURLY_MODEL, CALTRACK_WRAPPER):
        c = chk.repo.cls(*mc)
        for f in chk.res.reachable([method(chk, c, "to_dict")]):
            serialised_attrs |= {n.attr for n in ast.walk(f.node) if isinstance(n, ast.Attribute) and isinstance(n.ctx, ast.Load)}
    n_clock = 0
    for f in reach:
        rd = None
        for c in calls_in(f.node):
            fn = unparse(c.func)
            ext = chk.res.ext_name(f.module, c.func) or ""
            if fn in ("timer", "time.time", "time.perf_counter", "time.monotonic", "datetime.now", "datetime.datetime.now", "pd.Timestamp.now", "datetime.utcnow") or ext in ("timeit.default_timer", "time.time", "time.perf_counter"):
                n_clock += 1
                rd = rd or ReachingDefs(f.node)
                st = f.module.enclosing_stmt(c)
                # sinks: attribute stores fed (transitively, through one local) by the clock value
                sinks = []
                names = set()
                def sink_name(t):
                    while isinstance(t, ast.Subscript):
                        t = t.value
                    return t.attr if isinstance(t, ast.Attribute) else None
                if isinstance(st, ast.Assign):
                    for t in st.targets:
                        if isinstance(t, ast.Name):
                            names.add(t.id)
                        elif sink_name(t):
                            sinks.append(sink_name(t))
                for s2 in walk_no_nested(f.node):
                    if isinstance(s2, ast.Assign) and any(isinstance(n, ast.Name) and n.id in names for n in ast.walk(s2.value)):
                        for t in s2.targets:
                            if sink_name(t):
                                sinks.append(sink_name(t))
                            elif isinstance(t, ast.Name):
                                sinks.append("local:" + t.id)
                    if isinstance(s2, ast.Return) and s2.value is not None and any(isinstance(n, ast.Name) and n.id in names for n in ast.walk(s2.value)):
                        sinks.append("return")
                bad = [s for s in sinks if s in serialised_attrs or s == "return" or s.startswith("local:")]
                r1b.require(not bad, f"{f.key}|clock:{fn}", f.where(c), f"{f.qualname}: a clock value reaches {bad} (serialised / returned): repeated fits differ",
                            sample={"function": f.qualname, "clock": fn, "sinks": sinks})
    if n_clock < 2:
        raise AnalysisError("clock inventory found fewer than the 2+ known timer() sites in optimize.py")

    # ------------------------------------------------------------------ R03.1c hash order
    n_sets = 0
    for f in reach:
        # names bound to set expressions (flow-insensitive, one level)
        setnames: Set[str] = set()
        for s in walk_no_nested(f.node):
            if isinstance(s, ast.Assign) and len(s.targets) == 1 and isinstance(s.targets[0], ast.Name) and _is_set_expr(s.value, set()):
                setnames.add(s.targets[0].id)
            if isinstance(s, ast.Return) and s.value is not None and _is_set_expr(s.value, set()):
                pass
        rd = None
        for n in walk_no_nested(f.node):
            if not isinstance(n, ast.expr) or not _is_set_expr(n, setnames):
                continue
            par = f.module.parent(n)
            # only the outermost set expression of a chain
            if isinstance(par, ast.expr) and _is_set_expr(par, setnames) and not isinstance(par, ast.Name):
                continue
            if isinstance(n, ast.Name) and isinstance(n.ctx, ast.Store):
                continue
            n_sets += 1
            use = _classify_set_use(f, n, par)
            if use is None:
                r1c.inst(f"{f.key}|set:{unparse(n)[:50]}|order-insensitive")
                continue
            if use.startswith("bind:"):
                # list(set) bound to a name: sanitised iff the only uses of that definition are sorted(...) / membership / len
                rd = rd or ReachingDefs(f.node)
                st = f.module.enclosing_stmt(n)
                nm = use[5:]
                ok = True
                uses = []
                for d in rd.gen.get(id(st), []):
                    if d.name != nm:
                        continue
                    for u in rd.uses(d):
                        for x in ast.walk(u):
                            if isinstance(x, ast.Name) and x.id == nm and isinstance(x.ctx, ast.Load):
                                up = f.module.parent(x)
                                fine = isinstance(up, ast.Call) and isinstance(up.func, ast.Name) and up.func.id in ORDER_INSENSITIVE_SET_USES and x in up.args[:1]
                                fine = fine or (isinstance(up, ast.Compare))
                                uses.append((unparse(up)[:50], fine))
                                ok = ok and fine
                r1c.require(ok and bool(uses), f"{f.key}|set-order:{unparse(n)[:60]}", f.where(n),
                            f"{f.qualname}: `{unparse(f.module.enclosing_stmt(n))[:90]}` materialises a set in hash order and the order is used ({[u for u, fine in uses if not fine][:2]}): results differ between processes",
                            sample={"function": f.qualname, "expr": unparse(n)[:60], "uses": uses[:3]})
                continue
            r1c.require(False, f"{f.key}|set-order:{unparse(n)[:60]}", f.where(n),
                        f"{f.qualname}: `{unparse(f.module.enclosing_stmt(n))[:90]}` exposes the iteration order of a set ({use}); string hashing differs between processes, so derived results are not reproducible",
                        sample={"function": f.qualname, "expr": unparse(n)[:60], "use": use})
    if n_sets < 8:
        raise AnalysisError(f"set inventory found only {n_sets} set expressions on the fit/predict paths")

    # ------------------------------------------------------------------ R03.1d global state
    for f in reach:
        # global statements
        for s in walk_no_nested(f.node):
            if isinstance(s, (ast.Global, ast.Nonlocal)) and isinstance(s, ast.Global):
                r1d.require(False, f"{f.key}|global:{','.join(s.names)}", f.where(s), f"{f.qualname} rebinds module globals {s.names}")
        # mutable default arguments: stored on self / returned / mutated in place
        for p, d in f.param_defaults().items():
            if isinstance(d, (ast.List, ast.Dict, ast.Set)) or (isinstance(d, ast.Call) and unparse(d.func) in ("list", "dict", "set")):
                mutated = []
                stored_attr = None
                for s in walk_no_nested(f.node):
                    if isinstance(s, ast.Expr) and isinstance(s.value, ast.Call) and isinstance(s.value.func, ast.Attribute) and unparse(s.value.func.value) == p and s.value.func.attr in ("append", "extend", "update", "add", "insert", "pop", "remove", "setdefault", "clear", "sort"):
                        mutated.append(unparse(s)[:50])
                    if isinstance(s, (ast.Assign, ast.AugAssign)):
                        tg = s.targets if isinstance(s, ast.Assign) else [s.target]
                        for t in tg:
                            if isinstance(t, ast.Subscript) and unparse(t.value) == p:
                                mutated.append(unparse(s)[:50])
                            if is_self_attr(t) and isinstance(s, ast.Assign) and unparse(s.value) == p:
                                stored_attr = t.attr
                if stored_attr and f.cls is not None:
                    # any in-place mutation of that attribute anywhere in the package?
                    for g in chk.repo.all_functions():
                        for c in calls_in(g.node):
                            if isinstance(c.func, ast.Attribute) and c.func.attr in ("append", "extend", "insert", "update") and isinstance(c.func.value, ast.Attribute) and c.func.value.attr == stored_attr \
                                    and g.cls is not None and (g.cls is f.cls or f.cls in chk.res.mro(g.cls)):
                                mutated.append(f"{g.qualname}: {unparse(c)[:40]}")
                r1d.require(not mutated, f"{f.key}|mutable-default:{p}", f.where(), f"{f.qualname}: mutable default `{p}={unparse(d)}` is mutated ({mutated[:2]}): state leaks between calls / objects",
                            sample={"function": f.qualname, "parameter": p, "default": unparse(d)})
    # writes to os.environ outside module top level
    for f in reach:
        for s in walk_no_nested(f.node):
            if isinstance(s, ast.Assign) and any(isinstance(t, ast.Subscript) and unparse(t.value) == "os.environ" for t in s.targets):
                r1d.require(False, f"{f.key}|environ", f.where(s), f"{f.qualname} writes os.environ at run time")
    # module-level mutable containers mutated from functions
    for m in chk.repo.package_modules():
        muts = {n for n, v in m.constants.items() if isinstance(v, (ast.List, ast.Dict, ast.Set))}
        if not muts:
            continue
        for f in m.all_funcs:
            if f.key not in reach_keys:
                continue
            local = set(f.params)
            for s in walk_no_nested(f.node):
                if isinstance(s, ast.Assign):
                    for t in s.targets:
                        if isinstance(t, ast.Name):
                            local.add(t.id)
            for s in walk_no_nested(f.node):
                tg = []
                if isinstance(s, ast.Assign):
                    tg = s.targets
                elif isinstance(s, ast.AugAssign):
                    tg = [s.target]
                for t in tg:
                    if isinstance(t, ast.Subscript) and isinstance(t.value, ast.Name) and t.value.id in muts and t.value.id not in local:
                        r1d.require(False, f"{f.key}|module-global:{t.value.id}", f.where(s), f"{f.qualname} mutates the module-level container `{t.value.id}`")
                if isinstance(s, ast.Expr) and isinstance(s.value, ast.Call) and isinstance(s.value.func, ast.Attribute) and isinstance(s.value.func.value, ast.Name) \
                        and s.value.func.value.id in muts and s.value.func.value.id not in local and s.value.func.attr in ("append", "extend", "update", "pop", "clear", "setdefault", "insert"):
                    r1d.require(False, f"{f.key}|module-global:{s.value.func.value.id}", f.where(s), f"{f.qualname} mutates the module-level container `{s.value.func.value.id}`")
        r1d.inst(f"{m.name}|module-containers[{len(muts)}]")

    # class-level mutable objects written through instances, class attributes rebound from methods (whole package)
    from rules import classstate
    classstate.report(chk, r1d, None, what="what a fit or prediction sees depends on what the process did before")

    # ------------------------------------------------------------------ R03.1e estimator state carried across fits
    r1e = chk.rule("R03.1e", "history independence of kept estimators: no warm_start / partial_fit — an estimator object stored on the model must start every fit from scratch", 2)
    n_est = 0
    for f in reach:
        for c in calls_in(f.node):
            ws = kwarg(c, "warm_start")
            short = unparse(c.func).split(".")[-1]
            if short in RNG_CONSUMERS or short in ("StandardScaler", "RobustScaler", "PCA", "KernelPCA", "LinearRegression", "Ridge"):
                n_est += 1
                r1e.inst(f"{f.key}|estimator:{short}")
            if ws is not None:
                ok = isinstance(ws, ast.Constant) and ws.value is False
                r1e.require(ok, f"{f.key}|warm_start:{short}", f.where(c),
                            f"{f.qualname}: `{short}(..., warm_start={unparse(ws)})` — with warm start the estimator kept on the model begins the next fit() from the previous fit's solution, so the same data, "
                            f"settings and seed give a different model depending on what the object was fitted on before", sample={"function": f.qualname, "estimator": short, "warm_start": unparse(ws)})
            if isinstance(c.func, ast.Attribute) and c.func.attr == "partial_fit":
                r1e.require(False, f"{f.key}|partial_fit", f.where(c), f"{f.qualname}: partial_fit accumulates state across calls; fits are no longer a function of (data, settings, seed)")
    if n_est < 2:
        raise AnalysisError("estimator inventory found fewer than 2 estimator constructions")

    # ------------------------------------------------------------------ R03.2 pins
    bk = chk.repo.func("opendsm.common.clustering.bisect_k_means", "BisectingKMeans.fit")
    pin = [s for s in walk_no_nested(bk.node) if isinstance(s, ast.Assign) and unparse(s.targets[0]) == "self._n_threads"]
    r2.require(len(pin) == 1 and unparse(pin[0].value) == "1" and CFG(bk.node).must_pass_through(pin), f"{bk.key}|one-thread", bk.where(), "BisectingKMeans.fit must set self._n_threads = 1 on every path (results depend on the thread count otherwise)")
    hmod = chk.repo.module("opendsm.eemeter.models.hourly.model")
    first_numeric = None
    pins = {}
    for i, s in enumerate(hmod.tree.body):
        if isinstance(s, ast.Assign) and isinstance(s.targets[0], ast.Subscript) and unparse(s.targets[0].value) == "os.environ":
            pins[const_str(s.targets[0].slice)] = (i, const_str(s.value))
        if isinstance(s, (ast.Import, ast.ImportFrom)) and first_numeric is None:
            names = [a.name for a in s.names] if isinstance(s, ast.Import) else [s.module or ""]
            if any(n.split(".")[0] in ("numpy", "scipy", "sklearn", "pandas", "numba", "pywt", "opendsm") for n in names):
                first_numeric = i
    for var in ("OMP_NUM_THREADS", "MKL_NUM_THREADS", "OPENBLAS_NUM_THREADS"):
        ok = var in pins and pins[var][1] == "1" and first_numeric is not None and pins[var][0] < first_numeric
        r2.require(ok, f"{hmod.name}|pin:{var}", hmod.rel, f"{var} must be set to '1' before the first numeric import of hourly/model.py (found {pins.get(var)}, first numeric import at statement {first_numeric})")

    # no computation whose result depends on the number of worker threads: compiled kernels are sequential (a parallel reduction sums its
    # chunks in an order that follows the thread count), no thread / process pools, no n_jobs other than 1
    n_jit = 0
    # helpers the transparency pre-pass inlined into their callers are examined too (their decorators say how they are compiled)
    decorated = [(fi.key, fi.qualname, fi.where(), fi.node) for fi in chk.repo.all_functions()]
    for modname, nodes in chk.repo.removed_helpers.items():
        for nd in nodes:
            if isinstance(nd, (ast.FunctionDef, ast.AsyncFunctionDef)):
                decorated.append((f"{modname}:{nd.name}", nd.name, f"{modname.replace('.', '/')}.py:{getattr(nd, 'lineno', 0)}", nd))
    for fkey, fq, fwhere, fnode in decorated:
        for d in fnode.decorator_list:
            if isinstance(d, ast.Call) and unparse(d.func).split(".")[-1] in ("jit", "njit", "vectorize", "guvectorize", "stencil"):
                n_jit += 1
                par = [k for k in d.keywords if (k.arg == "parallel" and not (isinstance(k.value, ast.Constant) and k.value.value is False))
                       or (k.arg == "target" and isinstance(k.value, ast.Constant) and k.value.value in ("parallel", "cuda"))]
                r2.require(not par, f"{fkey}|sequential-kernel", fwhere, f"{fq} is compiled with `{unparse(par[0]) if par else ''}`: reductions are then summed per worker chunk, "
                           "so the last bits of the result - and with them optimiser decisions - depend on the number of worker threads")
        for c in calls_in(fnode):
            fn = unparse(c.func)
            short = fn.split(".")[-1]
            if short == "prange":
                r2.require(False, f"{fkey}|prange", fwhere, f"{fq} iterates with prange: the iteration space is split over the worker threads")
            if short in ("ThreadPoolExecutor", "ProcessPoolExecutor", "Pool", "ThreadPool", "Parallel", "set_num_threads"):
                r2.require(False, f"{fkey}|pool:{short}", fwhere, f"{fq} uses `{fn}`: work (and the order results are combined in) is spread over a worker pool")
            nj = kwarg(c, "n_jobs")
            if nj is not None and not (isinstance(nj, ast.Constant) and nj.value in (None, 1)):
                r2.require(False, f"{fkey}|n_jobs:{short}", fwhere, f"{fq}: `{short}(..., n_jobs={unparse(nj)})` runs on a variable number of workers")
    if n_jit < 5:
        raise AnalysisError(f"thread-count inventory: only {n_jit} compiled kernels found (anchor changed)")
    r2.inst(f"package|compiled-kernels-sequential[{n_jit}]", {"compiled_kernels_examined": n_jit})

    # ------------------------------------------------------------------ R03.3
    OPT = "opendsm.eemeter.models.daily.optimize"
    dec = chk.repo.func(OPT, "obj_fcn_dec")
    inner = [g for g in dec.module.all_funcs if g.parent_func is dec]
    mutates = any(isinstance(s, ast.Assign) and isinstance(s.targets[0], ast.Subscript) and unparse(s.targets[0].value) == "x0" for g in inner for s in ast.walk(g.node))
    r3.inst(f"{dec.key}|closure-mutates-x0={mutates}")
    if mutates:
        for cname in ("Optimizer", "InitialGuessOptimizer"):
            init = chk.repo.func(OPT, f"{cname}.__init__")
            run_ = chk.repo.func(OPT, f"{cname}.run")
            fresh = any(isinstance(s, ast.Assign) and unparse(s.targets[0]) == "self.x0" and isinstance(s.value, ast.Call) and unparse(s.value.func) in ("np.array", "np.copy", "copy", "np.asarray_copy") for s in walk_no_nested(init.node))
            r3.require(fresh, f"{init.key}|x0-copied", init.where(), f"{cname}.__init__ must copy the caller's start vector (np.array(x0)): obj_fcn_dec's closure mutates it in place across evaluations")
            rd = ReachingDefs(run_.node)
            ok = True
            found = 0
            for c in calls_in(run_.node):
                if len(c.args) >= 2 and (unparse(c.func) in ("SciPyOptimizer", "NLoptOptimizer", "optimizer_class")):
                    found += 1
                    a = c.args[1]
                    st = run_.module.enclosing_stmt(c)
                    vals = [unparse(rd.value_of(d)) for d in rd.reaching(st, a.id)] if isinstance(a, ast.Name) else [unparse(a)]
                    ok = ok and all(v == "self.x0" or v.endswith(".x") for v in vals)
            r3.require(ok and found > 0, f"{run_.key}|x0-provenance", run_.where(), f"{cname}.run must hand the inner optimiser its own copy (self.x0) or a previous result's x")


def _classify_set_use(f: FuncInfo, n: ast.AST, par: Optional[ast.AST]) -> Optional[str]:
    """None = order-insensitive use; otherwise a description of how the order is exposed ('bind:<name>' for list(set) bound to a name)."""
    if par is None:
        return None
    if isinstance(par, ast.Call):
        if isinstance(par.func, ast.Name) and par.func.id in ORDER_INSENSITIVE_SET_USES and n in par.args:
            return None
        if isinstance(par.func, ast.Attribute) and par.func.value is n:
            if par.func.attr in ("add", "discard", "remove", "update", "issubset", "issuperset", "isdisjoint", "intersection", "union", "difference", "copy", "clear", "intersection_update", "difference_update"):
                return None
            if par.func.attr == "pop":
                # allowed only right after a size-one check
                cfg = CFG(f.node)
                st = f.module.enclosing_stmt(par)
                nm = unparse(n)
                ok = any((not pol and unparse(t) in (f"len({nm}) != 1",)) or (pol and unparse(t) in (f"len({nm}) == 1",)) for t, pol in (cfg.guards(st) if id(st) in cfg.g else []))
                return None if ok else "pop() of an arbitrary element"
            return f"method .{par.func.attr}()"
        if isinstance(par.func, ast.Attribute) and par.func.attr in ("issubset", "issuperset", "isdisjoint", "intersection", "union", "difference", "isin", "discard", "add", "remove", "get") and n in par.args:
            return None
        if isinstance(par.func, ast.Name) and par.func.id in ("list", "tuple", "enumerate", "iter", "next") and n in par.args:
            gp = f.module.parent(par)
            if isinstance(gp, ast.Call) and isinstance(gp.func, ast.Name) and gp.func.id in ORDER_INSENSITIVE_SET_USES:
                return None
            if isinstance(gp, ast.Assign) and len(gp.targets) == 1 and isinstance(gp.targets[0], ast.Name):
                return "bind:" + gp.targets[0].id
            return f"{par.func.id}(set)"
        if n in par.args or any(k.value is n for k in par.keywords):
            fn = unparse(par.func)
            if fn in ("print", "str", "repr") or fn.endswith(".format"):
                return None
            return f"argument of {fn}()"
        return None
    if isinstance(par, (ast.For, ast.comprehension)) and par.iter is n:
        # order-insensitive loop body: only set/dict-key mutation or membership
        if isinstance(par, ast.For):
            body_ok = all(isinstance(s, ast.Expr) and isinstance(s.value, ast.Call) and isinstance(s.value.func, ast.Attribute) and s.value.func.attr in ("discard", "add", "remove") for s in par.body)
            return None if body_ok else "for-loop over a set"
        gp = f.module.parent(par)
        if isinstance(gp, (ast.SetComp, ast.DictComp)):
            return None
        ggp = f.module.parent(gp)
        if isinstance(ggp, ast.Call) and isinstance(ggp.func, ast.Name) and ggp.func.id in ORDER_INSENSITIVE_SET_USES:
            return None
        return "comprehension over a set"
    if isinstance(par, ast.Subscript) and par.value is n:
        return "indexing"
    if isinstance(par, (ast.Compare, ast.BoolOp, ast.UnaryOp, ast.If, ast.While, ast.IfExp, ast.NamedExpr, ast.BinOp)):
        return None
    if isinstance(par, (ast.Assign, ast.AugAssign, ast.AnnAssign, ast.Return, ast.Expr)):
        return None  # binding a set keeps it a set; exposure is judged where it is used
    if isinstance(par, (ast.FormattedValue, ast.JoinedStr)):
        return None
    if isinstance(par, ast.Starred):
        return "unpacking *set"
    if isinstance(par, (ast.keyword,)):
        return None
    if isinstance(par, (ast.List, ast.Tuple)):
        return None
    return None
