"""C01 — a stored model reproduces its counterfactual exactly (structural clauses)."""
from __future__ import annotations

import ast
from typing import Any, Dict, List, Optional, Set, Tuple

from engine.cfg import CFG
from engine.dataflow import ReachingDefs, backward_slice_exprs
from engine.index import AnalysisError, ClassInfo, FuncInfo, calls_in, const_str, is_self_attr, kwarg, unparse, walk_no_nested
from rules import coef
from rules.c02 import _attrs_read, _fitted_reach
from engine.pattern import PatCtx
from rules.common import attr_stores_chain, attr_stores, flows_from, returned_names, BILLING_MODEL, CALTRACK_WRAPPER, DAILY_MODEL, HOURLY_MODEL, WEIGHTED_MODEL, method

HS = "opendsm.eemeter.models.hourly.settings"
CM = "opendsm.eemeter.models.hourly_caltrack.model"
CS = "opendsm.eemeter.models.hourly_caltrack.segmentation"
CMET = "opendsm.eemeter.models.hourly_caltrack.metrics"


def _self_attrs_in(e: ast.AST, var: str = "self") -> Set[str]:
    return {n.attr for n in ast.walk(e) if isinstance(n, ast.Attribute) and isinstance(n.value, ast.Name) and n.value.id == var}


def _keys_read(fn: ast.AST, var: str) -> Dict[str, List[ast.AST]]:
    """data.get('k') / data['k'] occurrences (outermost key only) -> nodes."""
    out: Dict[str, List[ast.AST]] = {}
    for n in ast.walk(fn):
        if isinstance(n, ast.Call) and isinstance(n.func, ast.Attribute) and n.func.attr == "get" and isinstance(n.func.value, ast.Name) and n.func.value.id == var and n.args and const_str(n.args[0]):
            out.setdefault(const_str(n.args[0]), []).append(n)
        if isinstance(n, ast.Subscript) and isinstance(n.value, ast.Name) and n.value.id == var and const_str(n.slice):
            out.setdefault(const_str(n.slice), []).append(n)
    return out


def _dict_keys_written(fn: ast.AST) -> Dict[str, ast.AST]:
    """keys of dict literals assigned to / updated into the returned `data` dict of a json() method."""
    out: Dict[str, ast.AST] = {}
    for n in ast.walk(fn):
        if isinstance(n, ast.Dict) and n.keys and all(k is not None and const_str(k) is not None for k in n.keys):
            par_ok = True
            for k, v in zip(n.keys, n.values):
                out.setdefault(const_str(k), v)
    return out


def run(chk):
    chk.explanation = (
        "Writer/reader tables: for each family the keys written by to_dict/json (constructor keywords of the serialisation model, dict "
        "literals) and their source attributes are extracted and compared with the keys read by from_dict/from_json and the attributes "
        "they are stored into; attributes read on the fitted predict path must be (re)stored by __init__ + from_dict; the class of what the "
        "reader stores must be the class the writer's typed field / .json() call needs; constructor profile parameters must be recoverable; "
        "no lossy encoder on the write path; the two evaluation paths of the daily curve are alpha-equivalent; the coefficient vector's "
        "order conventions agree at every writer/reader site; integer dictionary keys are restored after JSON.")
    chk.not_decided += ["bit-identity of floating-point arithmetic in NumPy/numba/scikit-learn after reload", "that json.dumps/loads round-trips Python floats exactly (shortest-repr; trusted)",
                        "the documented piecewise formula as a numerical statement (its shape is C11)"]
    r1 = chk.rule("R01.1", "serialisation symmetry: every key read is written; a key written from attribute A is read back into A; encodings pair up", 60)
    r2 = chk.rule("R01.2", "state coverage: every attribute read on the fitted predict path is assigned by __init__ or from_dict", 20)
    r3 = chk.rule("R01.3", "re-serialisability: what the reader stores provides what the writer consumes (typed field class / .json method)", 4)
    r4 = chk.rule("R01.4", "profile coverage: a constructor parameter that selects the settings class is recoverable by from_dict or pinned + compensated", 3)
    r5 = chk.rule("R01.5", "no lossy encoder (round / float32 / format spec) on the write path", 4)
    r6 = chk.rule("R01.6", "sibling evaluation paths: DailyModel._predict_submodel and OptimizedResult.eval are the same evaluation", 1)
    r7 = chk.rule("R01.7", "coefficient-vector conventions: the five coef_id sequences agree position by position at every writer/reader site", 25)
    r8 = chk.rule("R01.8", "integer dictionary keys written to JSON are restored by the reader before they are compared with integers", 2)
    r10 = chk.rule("R01.10", "the state a model predicts from is its own: no model class keeps mutable state on the class (shared by the original, the reloaded copy and every other model in the process) and writes it through an instance", 1)
    from rules import classstate
    from rules.common import BILLING_MODEL, CALTRACK_WRAPPER, DAILY_MODEL, WEIGHTED_MODEL
    _fams = [chk.repo.cls(*x) for x in (DAILY_MODEL, BILLING_MODEL, WEIGHTED_MODEL, HOURLY_MODEL, CALTRACK_WRAPPER)]
    _fams += [c for c in chk.res.all_classes() if c.module.name.startswith("opendsm.eemeter.models.hourly_caltrack") and c not in _fams]
    classstate.report(chk, r10, _fams, what="loading or building another model changes what this one predicts, so a stored model no longer reproduces the original")

    # ================================================================== hourly
    hm = chk.repo.cls(*HOURLY_MODEL)
    td, fd = method(chk, hm, "to_dict"), method(chk, hm, "from_dict")
    ser = [c for c in calls_in(td.node) if unparse(c.func).endswith("SerializeModel")]
    if len(ser) != 1:
        raise AnalysisError("HourlyModel.to_dict: SerializeModel(...) call not found")
    rd_w = ReachingDefs(td.node)
    st_w = td.module.enclosing_stmt(ser[0])
    W: Dict[str, Set[str]] = {}
    for k in ser[0].keywords:
        sl = backward_slice_exprs(rd_w, st_w, k.value, 4)
        attrs = set()
        for e in sl:
            attrs |= _self_attrs_in(e)
        # definitions through subscript stores (feature_scaler[key] = [...]) are not in the slice: add attrs of statements storing into the name
        if isinstance(k.value, ast.Name):
            for s in walk_no_nested(td.node):
                if isinstance(s, ast.Assign) and isinstance(s.targets[0], ast.Subscript) and unparse(s.targets[0].value) == k.value.id:
                    attrs |= _self_attrs_in(s.value)
                if isinstance(s, ast.For) and any(isinstance(x, ast.Assign) and isinstance(x.targets[0], ast.Subscript) and unparse(x.targets[0].value) == k.value.id for x in ast.walk(s)):
                    attrs |= _self_attrs_in(s.iter)
        W[k.arg] = attrs
    sm_cls = chk.repo.cls(HS, "SerializeModel")
    fields = {n for n, (ann, v, st) in sm_cls.attrs.items() if ann is not None and n != "model_config"}
    for k in W:
        r1.require(k in fields, f"{td.key}|writes:{k}|declared", td.where(ser[0]), f"to_dict passes `{k}` to SerializeModel, which declares no such field")
    DOC = [p_ for p_ in fd.params if p_ not in ("cls", "self")][0]  # the document parameter of from_dict
    objs = returned_names(fd)
    if len(objs) != 1:
        raise AnalysisError(f"{fd.key}: expected from_dict to build and return one model object; returns {objs}")
    OBJ = objs[0]
    R = _keys_read(fd.node, DOC)
    rd_r = ReachingDefs(fd.node)
    # reader target attributes per key: statements whose value (transitively) uses data.get(k)
    def reader_targets(key: str) -> Set[str]:
        out: Set[str] = set()
        tainted: Set[str] = set()
        changed = True
        stmts = [s for s in walk_no_nested(fd.node) if isinstance(s, (ast.Assign, ast.AnnAssign))]
        while changed:
            changed = False
            for s in stmts:
                val = s.value
                if val is None:
                    continue
                uses = any(n in [x for xs in [R.get(key, [])] for x in xs] for n in ast.walk(val)) or any(isinstance(n, ast.Name) and n.id in tainted for n in ast.walk(val))
                if not uses:
                    continue
                for t in (s.targets if isinstance(s, ast.Assign) else [s.target]):
                    for x in ast.walk(t):
                        if isinstance(x, ast.Name) and isinstance(x.ctx, ast.Store) and x.id not in tainted and x.id != OBJ:
                            tainted.add(x.id)
                            changed = True
                    if isinstance(t, ast.Attribute):
                        ch = t
                        while isinstance(ch.value, ast.Attribute):
                            ch = ch.value
                        if isinstance(ch.value, ast.Name) and ch.value.id == OBJ and ch.attr not in out:
                            out.add(ch.attr)
                            changed = True
        # local aliases of parts of the object: `scaler = <obj>._feature_scaler`
        alias: Dict[str, str] = {}
        for s in stmts:
            if not (isinstance(s, ast.Assign) and len(s.targets) == 1):
                continue
            pairs = [(s.targets[0], s.value)]
            if isinstance(s.targets[0], ast.Tuple) and isinstance(s.value, ast.Tuple) and len(s.targets[0].elts) == len(s.value.elts):
                pairs = list(zip(s.targets[0].elts, s.value.elts))
            for t_, v_ in pairs:
                if isinstance(t_, ast.Name) and isinstance(v_, ast.Attribute):
                    ch = v_
                    while isinstance(ch.value, ast.Attribute):
                        ch = ch.value
                    if isinstance(ch.value, ast.Name) and ch.value.id == OBJ:
                        alias[t_.id] = ch.attr
        for s in stmts:     # <alias>.<x> = <tainted value>
            val = s.value
            if val is None or not (any(n in R.get(key, []) for n in ast.walk(val)) or any(isinstance(n, ast.Name) and n.id in tainted for n in ast.walk(val))):
                continue
            for t in (s.targets if isinstance(s, ast.Assign) else [s.target]):
                ch = t
                while isinstance(ch, (ast.Attribute, ast.Subscript)):
                    ch = ch.value
                if isinstance(t, (ast.Attribute, ast.Subscript)) and isinstance(ch, ast.Name) and ch.id in alias:
                    out.add(alias[ch.id])
        # setattr(<obj>.<attr>..., <name>, <tainted value>): an attribute store spelled as a call (attribute name taken from a table)
        for c in calls_in(fd.node):
            if isinstance(c.func, ast.Name) and c.func.id == "setattr" and len(c.args) == 3:
                v_ = c.args[2]
                if any(n in R.get(key, []) for n in ast.walk(v_)) or any(isinstance(n, ast.Name) and n.id in tainted for n in ast.walk(v_)):
                    ch = c.args[0]
                    if isinstance(ch, ast.Name) and ch.id in alias:
                        out.add(alias[ch.id])
                        continue
                    if isinstance(ch, ast.Name) and ch.id == OBJ:
                        if isinstance(c.args[1], ast.Constant) and isinstance(c.args[1].value, str):
                            out.add(c.args[1].value)
                        continue
                    while isinstance(ch, ast.Attribute) and isinstance(ch.value, ast.Attribute):
                        ch = ch.value
                    if isinstance(ch, ast.Attribute) and isinstance(ch.value, ast.Name) and ch.value.id == OBJ:
                        out.add(ch.attr)
        # constructor: cls(settings=<tainted>)
        for c in calls_in(fd.node):
            if isinstance(c.func, ast.Name) and c.func.id == "cls":
                for kw in c.keywords:
                    if any(isinstance(n, ast.Name) and n.id in tainted for n in ast.walk(kw.value)) or any(n in R.get(key, []) for n in ast.walk(kw.value)):
                        out.add(kw.arg)
        return out
    for k in sorted(set(W) | set(R)):
        if k not in W:
            r1.require(False, f"{fd.key}|reads:{k}|written", fd.where(R[k][0]), f"from_dict reads key `{k}` that to_dict never writes: it is always None after a round trip")
            continue
        if not W[k] and k not in R:
            r1.inst(f"{hm.key}|key:{k}|constant")
            continue
        if k not in R:
            r1.require(False, f"{td.key}|writes:{k}|read", td.where(ser[0]), f"to_dict writes `{k}` (from {sorted(W[k])}) but from_dict never reads it: that state is lost on reload")
            continue
        tg = reader_targets(k)
        if k == "info":
            continue
        ok = bool(tg & W[k]) or (k == "settings" and "settings" in tg)
        r1.require(ok, f"{hm.key}|key:{k}|same-attribute", fd.where(R[k][0]),
                   f"key `{k}` is written from {sorted(W[k])} but read back into {sorted(tg)}", sample={"family": "hourly", "key": k, "written_from": sorted(W[k]), "read_into": sorted(tg)})
    # info sub-record
    info_w = {}
    for c in calls_in(td.node):
        if unparse(c.func).endswith("ModelInfo"):
            for kw in c.keywords:
                info_w[kw.arg] = _self_attrs_in(kw.value)
    info_r = {}
    hp = PatCtx(fd.node)
    for s in walk_no_nested(fd.node):
        if isinstance(s, ast.Assign) and isinstance(s.targets[0], ast.Attribute) and unparse(s.targets[0].value) == OBJ:
            m_ = hp.find(f"{OBJ}.{s.targets[0].attr} = _INFO_._FIELD_")
            # <obj>.<attr> = <info record>.<field>, where the record is built from the document's `info` entry
            if isinstance(s.value, ast.Attribute) and flows_from(fd, s, s.value.value, R.get("info", []), rd_r):
                info_r[s.value.attr] = s.targets[0].attr
    mi = chk.repo.cls(HS, "ModelInfo")
    for f in sorted(set(info_w) | set(info_r) | {n for n, (a, v, s) in mi.attrs.items() if a is not None}):
        ok = f in info_w and f in info_r and info_r[f] in info_w[f]
        r1.require(ok, f"{hm.key}|info.{f}", fd.where(), f"info.{f}: written from {sorted(info_w.get(f, []))}, read back into {info_r.get(f)}", sample={"family": "hourly", "key": f"info.{f}"})
    # encodings (int-key restoration, np.array <-> tolist, scaler attributes per scaling method) are judged by the symbolic round trip below

    # symbolic round trip: to_dict and from_dict interpreted back to back on symbolic fitted state (rules/hourly_roundtrip.py)
    from rules.hourly_roundtrip import check as hourly_round_trip
    hourly_round_trip(chk, r1, td, fd)

    # ---- R01.2 hourly state coverage
    pred = method(chk, hm, "predict")
    P = _fitted_reach(chk, pred, hm)
    Rd: Set[str] = set()
    for f in P.values():
        if f.cls is hm or (f.parent_func is not None and f.cls is hm):
            Rd |= _attrs_read(f)
    init = method(chk, hm, "__init__")
    assigned = {t.attr for s in walk_no_nested(init.node) if isinstance(s, (ast.Assign, ast.AnnAssign)) for t in (s.targets if isinstance(s, ast.Assign) else [s.target]) if is_self_attr(t)}
    for s in walk_no_nested(fd.node):
        if isinstance(s, ast.Assign):
            for t in s.targets:
                ch = t
                while isinstance(ch, ast.Attribute) and isinstance(ch.value, ast.Attribute):
                    ch = ch.value
                if isinstance(ch, ast.Attribute) and isinstance(ch.value, ast.Name) and ch.value.id == OBJ:
                    assigned.add(ch.attr)
    class_level = set()
    for k in chk.res.mro(hm):
        class_level |= set(k.attrs) | set(k.methods)
    fit_state = set()
    for mname in ("_fit", "_adaptive_fit", "fit", "_add_temperature_bins", "_add_categorical_features", "_add_temperature_bin_masked_ts", "_normalize_features"):
        m = hm.methods.get(mname)
        if m:
            for s in ast.walk(m.node):
                if isinstance(s, ast.Assign):
                    for t in s.targets:
                        if is_self_attr(t):
                            fit_state.add(t.attr)
    for a in sorted(Rd - class_level):
        # rebuilt-per-call attributes are assigned on the predict path before being read; only fit-time state needs restoring
        restored = a in assigned
        rebuilt = a in ("_ts_feature_norm", "_processed_meter_data_full", "_processed_meter_data")
        r2.require(restored or rebuilt, f"{hm.key}|state:{a}", fd.where(), f"predict() reads self.{a}, which neither __init__ nor from_dict assigns: a reloaded model cannot predict (or predicts with unfitted state)",
                   sample={"family": "hourly", "attribute": a, "restored_by": "from_dict/__init__" if restored else "rebuilt per call"})
    for a in ("_df_temporal_clusters", "_T_bin_edges", "_T_edge_bin_coeffs", "_ts_features", "_categorical_features"):
        in_fd = any(isinstance(s, ast.Assign) and any(unparse(t) == f"{OBJ}.{a}" for t in s.targets) for s in walk_no_nested(fd.node))
        r2.require(in_fd, f"{fd.key}|restores:{a}", fd.where(), f"from_dict must restore fit-time state `{a}` from the document")

    # ---- R01.3 hourly
    bm_field = sm_cls.attrs.get("baseline_metrics")
    want_cls = None
    if bm_field and bm_field[0] is not None:
        ann = unparse(bm_field[0]).replace("Optional[", "").rstrip("]")
        want_cls = ann
    stored = [unparse(s.value.func) for s in walk_no_nested(fd.node) if isinstance(s, ast.Assign) and any(unparse(t) == f"{OBJ}.baseline_metrics" for t in s.targets) and isinstance(s.value, ast.Call)]
    ok = bool(stored) and all(x == want_cls or x.endswith("." + str(want_cls)) for x in stored)
    r3.require(ok, f"{hm.key}|baseline_metrics-class", fd.where(),
               f"to_dict feeds self.baseline_metrics to SerializeModel.baseline_metrics: Optional[{want_cls}], but from_dict stores the result of {stored}: "
               f"from_json(js).to_json() raises a pydantic ValidationError (the reloaded model cannot be stored again)",
               sample={"field_type": want_cls, "reader_stores": stored})

    # ================================================================== daily
    dm = chk.repo.cls(*DAILY_MODEL)
    cp = method(chk, dm, "_create_params_from_fit_model")
    dfd = method(chk, dm, "from_dict")
    DDOC = [p_ for p_ in dfd.params if p_ not in ("cls", "self")][0]
    dobjs = returned_names(dfd)
    if len(dobjs) != 1:
        raise AnalysisError(f"{dfd.key}: expected from_dict to build and return one model object; returns {dobjs}")
    DOBJ = dobjs[0]
    # symbolic round trip: _create_params_from_fit_model and from_dict interpreted back to back (rules/daily_roundtrip.py)
    from rules.daily_roundtrip import check as daily_round_trip
    daily_round_trip(chk, r1, dm, cp, dfd)
    # daily state coverage
    dpred = method(chk, dm, "predict")
    DP = _fitted_reach(chk, dpred, dm)
    dRd = set()
    for f in DP.values():
        if f.cls is not None and f.cls in chk.res.mro(dm):
            dRd |= _attrs_read_when_called_from(chk, f, DP)
    dinit = method(chk, dm, "__init__")
    dassigned = {t.attr for m in (dinit, method(chk, dm, "_initialize_settings")) for s in walk_no_nested(m.node) if isinstance(s, ast.Assign) for t in s.targets if is_self_attr(t)}
    for s in walk_no_nested(dfd.node):
        if isinstance(s, ast.Assign):
            for t in s.targets:
                if isinstance(t, ast.Attribute) and isinstance(t.value, ast.Name) and t.value.id == DOBJ:
                    dassigned.add(t.attr)
    dclass = set()
    for k in chk.res.mro(dm):
        dclass |= set(k.attrs) | set(k.methods)
    for a in sorted(dRd - dclass):
        r2.require(a in dassigned, f"{dm.key}|state:{a}", dfd.where(), f"daily predict() reads self.{a}, which neither __init__ nor from_dict assigns", sample={"family": "daily", "attribute": a})

    # ---- R01.4 profile coverage
    for modcls in (DAILY_MODEL, BILLING_MODEL, WEIGHTED_MODEL):
        c = chk.repo.cls(*modcls)
        init_c = method(chk, c, "__init__")
        fdc = method(chk, c, "from_dict")
        ctor_calls = [x for x in calls_in(fdc.node) if isinstance(x.func, ast.Name) and x.func.id == "cls"]
        passed = {k.arg for x in ctor_calls for k in x.keywords}
        profile_params = [p for p in init_c.params if p in ("model",)]
        if profile_params:
            for p in profile_params:
                r4.require(p in passed, f"{c.key}|profile:{p}", fdc.where(),
                           f"{c.name}(model=...) selects the settings class (current / legacy) but from_dict rebuilds the model with `cls(settings=...)` only: a model built with model='legacy' "
                           f"reloads under the current profile, whose developer-mode lock rejects the stored legacy settings (from_json raises)",
                           sample={"class": c.name, "constructor_parameter": p, "passed_by_from_dict": sorted(passed)})
        else:
            # pinned profile: must keep the developer_mode-forcing to_dict override
            tdc = c.methods.get("to_dict")
            ok = tdc is not None and any(isinstance(s, ast.Assign) and isinstance(s.targets[0], ast.Subscript) and const_str(s.targets[0].slice) == "developer_mode" and unparse(s.value) == "True" for s in walk_no_nested(tdc.node))
            r4.require(ok, f"{c.key}|pinned-profile-compensated", c.module.rel, f"{c.name} pins a non-default settings profile in __init__; its to_dict must force developer_mode so that the stored settings reload")

    # ================================================================== CalTRACK json/from_json pairs
    pairs = [(CS, "CalTRACKSegmentModel"), (CM, "CalTRACKHourlyModel"), (CM, "CalTRACKHourlyModelResults"), (CMET, "ModelMetrics")]
    for mod, cn in pairs:
        c = chk.repo.cls(mod, cn)
        j, fj = chk.res.find_method(c, "json"), c.methods.get("from_json")
        if j is None or fj is None:
            r1.require(False, f"{c.key}|json-pair", c.module.rel, f"{cn} lost json()/from_json()")
            continue
        wkeys = dict(_dict_keys_written(j.node))
        for k in chk.res.mro(c)[1:]:
            if "json" in k.methods and "super(" in unparse(j.node):
                wkeys.update(_dict_keys_written(k.methods["json"].node))
        rkeys = _keys_read(fj.node, "data")
        for k in sorted(rkeys):
            r1.require(k in wkeys, f"{c.key}|reads:{k}|written", fj.where(rkeys[k][0]), f"{cn}.from_json reads `{k}`, which {cn}.json never writes", sample={"family": "caltrack", "class": cn, "key": k})
        # orient agreement
        for k, v in wkeys.items():
            if isinstance(v, ast.Call) and isinstance(v.func, ast.Attribute) and v.func.attr == "to_json" and kwarg(v, "orient") is not None and k in rkeys:
                o = const_str(kwarg(v, "orient"))
                readers = [x for x in calls_in(fj.node) if unparse(x.func) == "pd.read_json" and any(n in rkeys[k] for n in ast.walk(x))]
                ok = bool(readers) and all(const_str(kwarg(x, "orient")) == o for x in readers)
                r1.require(ok, f"{c.key}|orient:{k}", fj.where(), f"{cn}: `{k}` is written with orient={o!r}; the reader must use the same orient")
    # ModelMetrics: json keys == from_json keys == ModelMetricsFromJson.__init__ params
    mm = chk.repo.cls(CMET, "ModelMetrics")
    mj = chk.repo.try_func(CMET, "ModelMetricsFromJson.__init__")
    if mj is not None:
        wkeys = set(_dict_keys_written(mm.methods["json"].node))
        ps = set(p for p in mj.params if p != "self")
        fjm = mm.methods["from_json"]
        kws = {}
        for x in calls_in(fjm.node):
            if unparse(x.func) == "ModelMetricsFromJson":
                for kw in x.keywords:
                    g = kw.value
                    kws[kw.arg] = const_str(g.args[0]) if isinstance(g, ast.Call) and g.args else None
        for p in sorted(ps | set(kws)):
            r1.require(p in ps and kws.get(p) == p and p in wkeys, f"{mm.key}|metric:{p}", fjm.where(), f"metric `{p}`: constructor param={p in ps} read-from={kws.get(p)} written={p in wkeys}", sample={"family": "caltrack", "metric": p})
    # ---- R01.3 CalTRACK: readers keep raw dicts where writers call .json()
    res = chk.repo.cls(CM, "CalTRACKHourlyModelResults")
    fj = res.methods["from_json"]
    wj = res.methods["json"]
    for attr, key in (("warnings", "warnings"),):
        writer_calls_json = f"[w.json() for w in self.{attr}]" in unparse(wj.node)
        raw = any(isinstance(k, ast.keyword) and k.arg == attr and unparse(k.value) == f"data.get('{key}')" for x in calls_in(fj.node) for k in x.keywords)
        r3.require(not (writer_calls_json and raw), f"{res.key}|{attr}-raw-dicts", fj.where(),
                   f"{res.name}.json() calls .json() on every element of self.{attr}, but from_json stores the raw dicts of the document: re-serialising a reloaded model raises AttributeError as soon as a warning is present",
                   sample={"class": res.name, "attribute": attr})
    seg = chk.repo.cls(CS, "CalTRACKSegmentModel")
    sfj, swj = seg.methods["from_json"], seg.methods["json"]
    writer_calls_json = "[w.json() for w in self.warnings]" in unparse(swj.node)
    raw = any(isinstance(k, ast.keyword) and k.arg == "warnings" and unparse(k.value) == "data.get('warnings')" for x in calls_in(sfj.node) for k in x.keywords)
    r3.require(not (writer_calls_json and raw), f"{seg.key}|warnings-raw-dicts", sfj.where(),
               "CalTRACKSegmentModel.json() calls .json() on every warning, but from_json stores the raw dicts: re-serialising a reloaded segment model with warnings raises AttributeError")
    mfj = chk.repo.try_func(CMET, "ModelMetricsFromJson.json")
    uses = "_json_or_none_in_dict(self.totals_metrics)" in unparse(wj.node)
    r3.require(mfj is not None or not uses, f"{res.key}|metrics-without-json", fj.where(),
               "CalTRACKHourlyModelResults.json() calls .json() on the stored metrics, but from_json stores ModelMetricsFromJson objects, which have no json(): a reloaded model with metrics cannot be stored again")

    # ---- R01.8 unc_vars int keys
    cw = chk.repo.cls(*CALTRACK_WRAPPER)
    cfd = method(chk, cw, "from_dict")
    cpred = method(chk, cw, "predict")
    compares_int = "df_res.index.month == month_n" in unparse(cpred.node)
    st = [s for s in walk_no_nested(cfd.node) if isinstance(s, ast.Assign) and unparse(s.targets[0]).endswith("._autocorr_unc_vars")]
    restored = False
    if st:
        rd8 = ReachingDefs(cfd.node)
        sl = backward_slice_exprs(rd8, st[0], st[0].value, 6)
        names = {n.id for e in sl for n in ast.walk(e) if isinstance(n, ast.Name)}

        def _int_of_key(e):
            return any(isinstance(c, ast.Call) and unparse(c.func) == "int" and len(c.args) == 1 for c in ast.walk(e))
        # a dict comprehension whose key goes through int(...), or a loop filling a dict of the slice through `d[int(key)] = value`
        restored = any(isinstance(n, ast.DictComp) and _int_of_key(n.key) for e in sl for n in ast.walk(e)) or \
            any(isinstance(x, ast.Assign) and isinstance(x.targets[0], ast.Subscript) and isinstance(x.targets[0].value, ast.Name) and x.targets[0].value.id in names and _int_of_key(x.targets[0].slice)
                for x in ast.walk(cfd.node))
    r8.require(not compares_int or restored, f"{cfd.key}|unc_vars-int-keys", cfd.where(),
               "predict() compares the keys of _autocorr_unc_vars with index.month (int); JSON turns them into strings, so from_dict must restore int keys — otherwise the reloaded model returns NaN predicted_uncertainty")
    ctd = method(chk, cw, "to_dict")
    r8.require("model_dict['model']['unc_vars'] = self._autocorr_unc_vars" in unparse(ctd.node) and "data['model']['unc_vars']" in unparse(cfd.node), f"{cw.key}|unc_vars-key", cfd.where(), "unc_vars must be written to and read from model.unc_vars")

    # ---- R01.5 lossy encoders on write paths
    LOSSY = ("round", "np.round", "np.around", "np.float32", "np.float16")
    for f in (td, cp, ctd) + tuple(chk.repo.cls(m, c).methods["json"] for m, c in pairs if "json" in chk.repo.cls(m, c).methods):
        bad = []
        for x in calls_in(f.node):
            fn = unparse(x.func)
            if fn in LOSSY or (isinstance(x.func, ast.Attribute) and x.func.attr in ("round",)) or (isinstance(x.func, ast.Attribute) and x.func.attr == "astype" and x.args and "32" in unparse(x.args[0])):
                bad.append(unparse(x)[:60])
        for n in ast.walk(f.node):
            if isinstance(n, ast.FormattedValue) and n.format_spec is not None:
                bad.append("format-spec " + unparse(n)[:40])
        r5.require(not bad, f"{f.key}|lossy", f.where(), f"{f.qualname} applies a lossy encoder on the write path: {bad}")
    ctl = ast.parse("d = {'a': round(self.x, 3)}")
    if not any(unparse(x.func) in LOSSY for x in ast.walk(ctl) if isinstance(x, ast.Call)):
        raise AnalysisError("R01.5 positive control failed")

    # ---- R01.6 sibling evaluators
    ev = chk.repo.func(coef.OR, "OptimizedResult.eval")
    ps = method(chk, dm, "_predict_submodel")
    from rules.evaluators import evaluator_outcomes
    oa, ob_ = evaluator_outcomes(chk, ps, "stored"), evaluator_outcomes(chk, ev, "fitted")
    diff = [(mk, {k_: (oa[mk].get(k_), ob_[mk].get(k_)) for k_ in set(oa[mk]) | set(ob_[mk]) if oa[mk].get(k_) != ob_[mk].get(k_)}) for mk in oa if oa[mk] != ob_[mk]]
    r6.require(not diff, f"{ps.key}~{ev.key}", ps.where(),
               f"the stored-model evaluator and the fitted-component evaluator differ (interpreted on the same abstract component for every model key): {str(diff[:1])[:400]}", sample={"model_keys_compared": len(oa)})
    # ---- R01.7
    coef.check_conventions(chk, r7)
    # ---- R01.9: the wrappers that turn stored coefficients into the evaluated curve (same function as C11/R11.4)
    r9 = chk.rule("R01.9", "stored coefficients -> evaluated curve: get_full_model_x/fix_full_model_x keep kernel order, swap pairs together, clamp against the fit range (T_min, T_max)", 5)
    from rules.c11 import check_kernel_wrappers
    check_kernel_wrappers(chk, r9)


def _attrs_read_when_called_from(chk, f: FuncInfo, P: Dict[str, FuncInfo]) -> Set[str]:
    """Attributes read in f, skipping reads guarded by `<param> is None` when every caller on the path P passes that parameter."""
    cfg = CFG(f.node)
    plist = [p for p in f.params if p != "self"]
    passed: Dict[str, bool] = {p: True for p in plist}
    n_calls = 0
    for g in P.values():
        for c in calls_in(g.node):
            if f in chk.res.resolve_call(g, c):
                n_calls += 1
                for i, p in enumerate(plist):
                    if not (len(c.args) > i or kwarg(c, p) is not None):
                        passed[p] = False
    out = set()
    for n in walk_no_nested(f.node):
        if is_self_attr(n) and isinstance(n.ctx, ast.Load):
            st = f.module.enclosing_stmt(n)
            skip = False
            if n_calls and st is not None and id(st) in cfg.g:
                for t, pol in cfg.guards(st):
                    if pol and isinstance(t, ast.Compare) and len(t.ops) == 1 and isinstance(t.ops[0], ast.Is) and unparse(t.comparators[0]) == "None" \
                            and isinstance(t.left, ast.Name) and passed.get(t.left.id):
                        skip = True
            if not skip:
                out.add(n.attr)
    return out


def _normalise_eval(f: FuncInfo, subst: Dict[str, str]) -> List[str]:
    """Statements from the get_full_model_x call to the return, in a form that does not depend on how many locals the author
    used: every single-definition local is expanded into its uses (and its defining statement dropped), then the sources are
    replaced by placeholders."""
    import copy
    from engine.pattern import Expander
    body = f.node.body
    start = None
    for i, s in enumerate(body):
        if isinstance(s, ast.Assign) and isinstance(s.value, ast.Call) and unparse(s.value.func) == "get_full_model_x":
            start = i
    if start is None:
        raise AnalysisError(f"{f.key}: get_full_model_x call not found")
    ex = Expander(f.node)
    ndefs: Dict[str, int] = {}
    for x in ast.walk(f.node):
        if isinstance(x, ast.Name) and isinstance(x.ctx, ast.Store):
            ndefs[x.id] = ndefs.get(x.id, 0) + 1

    class Sub(ast.NodeTransformer):
        def generic_visit(self, node):
            if isinstance(node, ast.expr):
                t = unparse(node)
                if t in subst:
                    return ast.Name(id=subst[t], ctx=ast.Load())
            return super().generic_visit(node)
    out = []
    for s in body[start:]:
        if isinstance(s, ast.Assign) and len(s.targets) == 1 and isinstance(s.targets[0], ast.Name) and ndefs.get(s.targets[0].id) == 1:
            continue  # a naming step: expanded into its uses below
        s2 = copy.deepcopy(s)
        for field, val in ast.iter_fields(s2):
            if isinstance(val, ast.expr) and not (field in ("targets", "target")):
                setattr(s2, field, ex.expand(getattr(s, field), s))
        if isinstance(s, (ast.If, ast.For, ast.While, ast.With, ast.Try)):
            # compound statement: expand every Load name inside, evaluated at the inner statement it belongs to
            s2 = copy.deepcopy(s)
            inner = list(ast.walk(s))
            inner2 = list(ast.walk(s2))
            for o, c in zip(inner, inner2):
                if isinstance(o, ast.stmt):
                    for field, val in ast.iter_fields(o):
                        if isinstance(val, ast.expr) and field not in ("targets", "target"):
                            setattr(c, field, ex.expand(val, o))
        s2 = Sub().visit(s2)
        ast.fix_missing_locations(s2)
        out.append(unparse(s2))
    return out
