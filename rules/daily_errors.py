"""DailyModel._get_error_metrics and the storing of its result by DailyModel._fit, interpreted from the AST (engine/pyinterp) on
sympy-valued stand-ins (C16/R16.1): the fitted components carry symbols (wSSE[c], N[c], resid[c], obs[c]); numpy reductions are
uninterpreted functions (engine/exprnorm: Mean, Abs, IQ, ...); the stacked arrays of a two-component candidate are Stack(a, b).
What comes out is compared with the reference formulas modulo field axioms; then `_fit` is interpreted with everything but the error
bookkeeping opaque, and self.error[name] must hold the value returned at name's position — whether the result travels as a tuple,
a named tuple, by unpacking, by index, by attribute or through a loop over its fields."""
from __future__ import annotations

from typing import Any, Dict, List, Tuple

import sympy as sp

from engine.absint import AbsObj, BoundRepoMethods, ModuleEnv, Opaque, OpaqueTuple
from engine.exprnorm import equal, fun, sym
from engine.index import AnalysisError
from engine.pyinterp import Function, Interp, InterpRaised, Record, Stub, StubCall, Unsupported

ORDER = ["wRMSE", "RMSE", "MAE", "CVRMSE", "PNRMSE"]


def _e(x):
    if isinstance(x, SX):
        return x.e
    if isinstance(x, bool):
        raise Unsupported("boolean in arithmetic")
    if isinstance(x, int):
        return sp.Integer(x)
    if isinstance(x, float):
        return sp.nsimplify(x, rational=True)
    raise Unsupported("arithmetic between a symbolic value and " + type(x).__name__)


class SX(Stub):
    """A symbolic scalar or array: a sympy expression."""

    def __init__(self, e):
        self.e = e

    def __add__(self, o): return SX(self.e + _e(o))
    __radd__ = __add__
    def __sub__(self, o): return SX(self.e - _e(o))
    def __rsub__(self, o): return SX(_e(o) - self.e)
    def __mul__(self, o): return SX(self.e * _e(o))
    __rmul__ = __mul__
    def __truediv__(self, o): return SX(self.e / _e(o))
    def __rtruediv__(self, o): return SX(_e(o) / self.e)
    def __pow__(self, o): return SX(self.e ** _e(o))
    def __neg__(self): return SX(-self.e)
    def __abs__(self): return SX(fun("Abs")(self.e))
    def _abs_cast(self, name): return self      # float(x) of a statistic is that statistic

    def mean(self): return SX(fun("Mean")(self.e))
    def sum(self): return SX(fun("Sum")(self.e))
    def std(self, ddof=0): return SX(fun("Std1" if ddof == 1 else "Std0")(self.e))
    def item(self): return self
    def flatten(self): return self
    def ravel(self): return self
    def squeeze(self): return self

    def __getitem__(self, k):
        if isinstance(k, int):
            return SX(fun("Item")(self.e, sp.Integer(k)))
        raise Unsupported("symbolic array[...] with a key that is not a position")

    def __repr__(self):
        return str(self.e)


class _Quantiles(Stub):
    def __init__(self, x: SX, qs: List[float]):
        self.x, self.qs = x, list(qs)

    def __getitem__(self, i):
        return SX(fun("Quantile")(self.x.e, sp.nsimplify(self.qs[i], rational=True)))


class _Diffs(Stub):
    def __init__(self, q: _Quantiles):
        self.q = q

    def __getitem__(self, i):
        if isinstance(i, int) and 0 <= i < len(self.q.qs) - 1:
            return SX(fun("IQ")(self.q.x.e, sp.nsimplify(self.q.qs[i], rational=True), sp.nsimplify(self.q.qs[i + 1], rational=True)))
        raise Unsupported("np.diff(quantiles)[...] out of range")


class NPx(Stub):
    nan = float("nan")
    inf = float("inf")

    @staticmethod
    def sqrt(x): return SX(sp.sqrt(_e(x)))

    @staticmethod
    def mean(x, **k):
        if k:
            raise Unsupported("np.mean with keyword arguments")
        return SX(fun("Mean")(_e(x)))

    @staticmethod
    def nanmean(x): return SX(fun("NanMean")(_e(x)))

    @staticmethod
    def sum(x): return SX(fun("Sum")(_e(x)))

    @staticmethod
    def abs(x): return SX(fun("Abs")(_e(x)))

    absolute = abs

    @staticmethod
    def square(x): return SX(_e(x) ** 2)

    @staticmethod
    def median(x): return SX(fun("Median")(_e(x)))

    @staticmethod
    def std(x, ddof=0): return SX(fun("Std1" if ddof == 1 else "Std0")(_e(x)))

    @staticmethod
    def size(x): return SX(fun("Len")(_e(x)))

    @staticmethod
    def hstack(parts):
        parts = list(parts)
        if not parts or not all(isinstance(p, SX) for p in parts):
            raise Unsupported("np.hstack of something other than symbolic arrays")
        return parts[0] if len(parts) == 1 else SX(fun("Stack")(*[p.e for p in parts]))

    concatenate = hstack

    @staticmethod
    def quantile(x, q, **k):
        if k or not isinstance(x, SX):
            raise Unsupported("np.quantile form not modelled")
        if isinstance(q, (list, tuple)):
            return _Quantiles(x, [float(v) for v in q])
        return SX(fun("Quantile")(x.e, sp.nsimplify(float(q), rational=True)))

    @staticmethod
    def percentile(x, q, **k):
        if k or not isinstance(x, SX):
            raise Unsupported("np.percentile form not modelled")
        if isinstance(q, (list, tuple)):
            return _Quantiles(x, [float(v) / 100.0 for v in q])
        return SX(fun("Quantile")(x.e, sp.nsimplify(float(q) / 100.0, rational=True)))

    @staticmethod
    def diff(x):
        if isinstance(x, _Quantiles):
            return _Diffs(x)
        raise Unsupported("np.diff of something other than a quantile pair")

    @staticmethod
    def subtract(a, b): return SX(_e(a) - _e(b))

    float64 = float


def _components(names: List[str], tag: str = "") -> Dict[str, Any]:
    return {c: AbsObj({"OptimizedResult"}, wSSE=SX(sym(f"wSSE{tag}_{i}")), N=SX(sym(f"N{tag}_{i}")), resid=SX(sym(f"resid{tag}_{i}")), obs=SX(sym(f"obs{tag}_{i}")))
            for i, c in enumerate(names)}


class _Model(AbsObj, BoundRepoMethods):
    pass


def constructed(chk, cls_info, it, stand, **attrs):
    """An abstract model object carrying the instance attributes its own constructor creates (interpreted from the AST with the
    settings replaced by an opaque stand-in), so that bookkeeping attributes a method relies on exist, with their initial values."""
    me = _Model({cls_info.name, "DailyModel"})
    me._bind_repo(chk, cls_info, it, stand)
    init = chk.res.find_method(cls_info, "__init__")
    if init is not None:
        def _init_settings(*a, **k):
            me.settings = Opaque("settings")
        object.__setattr__(me, "_initialize_settings", StubCall(_init_settings))
        class _WW(Stub):
            _num_dict = {1: "weekday", 2: "weekday", 3: "weekday", 4: "weekday", 5: "weekday", 6: "weekend", 7: "weekend"}
        class _Settings(Stub):
            weekday_weekend = _WW()
        def _init_settings2(*a, **k):
            me.settings = _Settings()
        object.__setattr__(me, "_initialize_settings", StubCall(_init_settings2))
        try:
            Function(init.node, ModuleEnv(chk.repo, init.module, it, dict(stand, np=stand.get("np", NPx()))), it)(me)
        except InterpRaised as e:
            raise AnalysisError(f"{init.key}: the constructor raises {e.exc_name} on default arguments")
        except Unsupported as e:
            raise AnalysisError(f"{init.key}: uses an operation outside the modelled subset: {e}")
        del me.__dict__["_initialize_settings"]
    for k, v in attrs.items():
        setattr(me, k, v)
    return me


def reference(n_components: int) -> List[Any]:
    """[wRMSE, RMSE, MAE, CVRMSE, PNRMSE] over the stacked residuals / observations of the candidate's components."""
    def stack(what):
        parts = [sym(f"{what}_{i}") for i in range(n_components)]
        return parts[0] if n_components == 1 else fun("Stack")(*parts)
    resid, obs = stack("resid"), stack("obs")
    wsse = sum(sym(f"wSSE_{i}") for i in range(n_components))
    n = sum(sym(f"N_{i}") for i in range(n_components))
    rmse = fun("Mean")(resid ** 2) ** sp.Rational(1, 2)
    return [sp.sqrt(wsse / n), rmse, fun("Mean")(fun("Abs")(resid)), rmse / fun("Mean")(obs), rmse / fun("IQ")(obs, sp.Rational(1, 20), sp.Rational(19, 20))]


def _values(res) -> Any:
    """The five statistics as a list, whatever container they travel in."""
    if isinstance(res, Record):
        return list(res._values())
    if isinstance(res, (tuple, list)):
        return list(res)
    return None


def error_metric_outcomes(chk, cls_info, gem) -> List[Dict[str, Any]]:
    out = []
    for combo in ("fw-su_sh_wi", "wd-su_sh_wi__we-su_sh_wi"):
        comps = combo.split("__")
        it = Interp(step_limit=50_000)
        env = ModuleEnv(chk.repo, gem.module, it, {"np": NPx(), "numpy": NPx()})
        for given in (combo, None):
            me = constructed(chk, cls_info, it, {"np": NPx(), "numpy": NPx()}, fit_components=_components(comps), best_combination=combo)
            try:
                res = Function(gem.node, env, it)(me, given)
            except InterpRaised as e:
                out.append({"combination": combo, "given": given, "raises": e.exc_name})
                continue
            except Unsupported as e:
                raise AnalysisError(f"{gem.key}: uses an operation outside the modelled subset: {e}")
            vals = _values(res)
            out.append({"combination": combo, "given": given, "n": len(comps), "values": [v.e if isinstance(v, SX) else v for v in vals] if vals is not None else None,
                        "fields": list(res._cls.fields) if isinstance(res, Record) else None, "result": res})
    return out


def judge_error_metrics(o: Dict[str, Any]) -> List[Tuple[int, str]]:
    if "raises" in o:
        return [(-1, f"raises {o['raises']} for `{o['combination']}`")]
    vals = o["values"]
    if vals is None or len(vals) != 5:
        return [(-1, f"does not return the five statistics (wRMSE, RMSE, MAE, CVRMSE, PNRMSE): {vals}")]
    if o["fields"] is not None and o["fields"] != ORDER:
        return [(-1, f"the returned record's fields are {o['fields']}, not {ORDER}")]
    bad = []
    for pos, want in enumerate(reference(o["n"])):
        if not equal(vals[pos], want):
            bad.append((pos, f"{ORDER[pos]} of `{o['combination']}` is {vals[pos]}; the reference is {want}"))
    return bad


def stored_errors(chk, cls_info, fit, gem) -> Dict[str, Any]:
    """Interpret _fit with the real _get_error_metrics (so its container type is the real one) and everything else opaque:
    {name: position of the returned statistic it holds, or a description}."""
    it = Interp(step_limit=100_000)
    stand = {"np": NPx(), "numpy": NPx()}
    combo = "wd-su_sh_wi__we-su_sh_wi"
    me = constructed(chk, cls_info, it, stand, error={}, fit_components=_components(combo.split("__") + ["fw-su_sh_wi"]), settings=Opaque("settings"), warnings=[], disqualification=[])
    genv = ModuleEnv(chk.repo, gem.module, it, stand)
    gfn = Function(gem.node, genv, it)
    tokens: Dict[int, SX] = {}

    def get_metrics(combination=None):
        res = gfn(me, combination)
        vals = _values(res)
        if vals is None or len(vals) != 5:
            raise Unsupported("_get_error_metrics does not return five statistics")
        if combination == "fw-su_sh_wi":
            toks = [SX(sym(f"base_{i}")) for i in range(5)]
        else:
            toks = [SX(sym(f"stat_{i}")) for i in range(5)]
        if isinstance(res, Record):
            return Record(res._cls, dict(zip(res._cls.fields, toks)))
        return tuple(toks)
    for name, val in (("_initialize_data", lambda *a, **k: OpaqueTuple(2, "initialized")), ("_combinations", lambda *a, **k: [combo]),
                      ("_components", lambda *a, **k: combo.split("__")), ("_fit_components", lambda *a, **k: me.fit_components),
                      ("_best_combination", lambda *a, **k: combo), ("_final_fit", lambda *a, **k: Opaque("model")),
                      ("_create_params_from_fit_model", lambda *a, **k: Opaque("params")), ("_get_error_metrics", get_metrics)):
        object.__setattr__(me, name, StubCall(val))
    try:
        Function(fit.node, ModuleEnv(chk.repo, fit.module, it, stand), it)(me, Opaque("meter_data"))
    except InterpRaised as e:
        return {"raises": e.exc_name}
    except Unsupported as e:
        raise AnalysisError(f"{fit.key}: uses an operation outside the modelled subset: {e}")
    out: Dict[str, Any] = {}
    for k, v in me.error.items():
        if isinstance(v, SX) and isinstance(v.e, sp.Symbol) and str(v.e).startswith("stat_"):
            out[k] = int(str(v.e)[5:])
        else:
            out[k] = repr(v)[:60]
    base = me.__dict__.get("wRMSE_base")
    out["__base__"] = str(base.e) if isinstance(base, SX) else repr(base)[:60]
    return out


def metrics_stand_in(chk, cls_info, gem, token):
    """A stand-in for self._get_error_metrics that hands out `token(combination, position)` in the container the real method returns
    (tuple or record), so callers may index it, unpack it or read it by field name."""
    it = Interp(step_limit=50_000)
    env = ModuleEnv(chk.repo, gem.module, it, {"np": NPx(), "numpy": NPx()})
    me = constructed(chk, cls_info, it, {"np": NPx(), "numpy": NPx()}, fit_components=_components(["fw-su_sh_wi"]), best_combination="fw-su_sh_wi")
    try:
        proto = Function(gem.node, env, it)(me, "fw-su_sh_wi")
    except (InterpRaised, Unsupported) as e:
        raise AnalysisError(f"{gem.key}: cannot establish what it returns: {e}")
    n = len(_values(proto) or [])

    def call(combination=None):
        toks = [token(combination, i) for i in range(n)]
        if isinstance(proto, Record):
            return Record(proto._cls, dict(zip(proto._cls.fields, toks)))
        return tuple(toks)
    return StubCall(call)



def refit_outcomes(chk, cls_info, fit, gem) -> Dict[str, Any]:
    """The same model object is fitted twice, on different data (the fitted components of the second fit carry fresh symbols).  `_fit`
    and `_get_error_metrics` are the repository's own, interpreted; the fitting work is replaced by stand-ins.  Returned: for each
    statistic stored by the *second* fit (self.error[...], wRMSE_base) whether it equals the reference over the second fit's
    components, and which fit's symbols it mentions."""
    it = Interp(step_limit=200_000)
    stand = {"np": NPx(), "numpy": NPx()}
    combo = "wd-su_sh_wi__we-su_sh_wi"
    names = combo.split("__")
    me = constructed(chk, cls_info, it, stand, warnings=[], disqualification=[])
    state = {"tag": "A"}

    def comps():
        d = _components(names, state["tag"])
        d.update({"fw-su_sh_wi": AbsObj({"OptimizedResult"}, wSSE=SX(sym(f"wSSE{state['tag']}_u")), N=SX(sym(f"N{state['tag']}_u")),
                                        resid=SX(sym(f"resid{state['tag']}_u")), obs=SX(sym(f"obs{state['tag']}_u")))})
        return d
    for name, val in (("_initialize_data", lambda *a, **k: OpaqueTuple(2, "initialized")), ("_combinations", lambda *a, **k: [combo]),
                      ("_components", lambda *a, **k: names + ["fw-su_sh_wi"]), ("_fit_components", lambda *a, **k: comps()),
                      ("_best_combination", lambda *a, **k: combo), ("_final_fit", lambda *a, **k: Opaque("model")),
                      ("_create_params_from_fit_model", lambda *a, **k: Opaque("params"))):
        object.__setattr__(me, name, StubCall(val))
    out: Dict[str, Any] = {}
    try:
        for tag in ("A", "B"):
            state["tag"] = tag
            Function(fit.node, ModuleEnv(chk.repo, fit.module, it, stand), it)(me, Opaque(f"meter_data_{tag}"))
    except InterpRaised as e:
        return {"raises": e.exc_name}
    except Unsupported as e:
        raise AnalysisError(f"{fit.key}: uses an operation outside the modelled subset: {e}")

    def ref(tag, ns):
        def stack(what):
            parts = [sym(f"{what}{tag}_{i}") for i in ns]
            return parts[0] if len(parts) == 1 else fun("Stack")(*parts)
        resid, obs = stack("resid"), stack("obs")
        wsse = sum(sym(f"wSSE{tag}_{i}") for i in ns)
        n = sum(sym(f"N{tag}_{i}") for i in ns)
        rmse = fun("Mean")(resid ** 2) ** sp.Rational(1, 2)
        return [sp.sqrt(wsse / n), rmse, fun("Mean")(fun("Abs")(resid)), rmse / fun("Mean")(obs), rmse / fun("IQ")(obs, sp.Rational(1, 20), sp.Rational(19, 20))]
    want = dict(zip(ORDER, ref("B", list(range(len(names))))))
    try:
        err = getattr(me, "error")      # an instance attribute, or the class-level object when the constructor leaves it on the class
    except AttributeError:
        err = None
    for k in ORDER:
        v = err.get(k) if isinstance(err, dict) else None
        if not isinstance(v, SX):
            out[k] = {"ok": False, "value": repr(v)[:60], "stale": False}
            continue
        names_in = {str(x) for x in v.e.free_symbols}
        out[k] = {"ok": bool(equal(v.e, want[k])), "value": str(v.e)[:120], "stale": any("A_" in n for n in names_in)}
    base = me.__dict__.get("wRMSE_base")
    wb = ref("B", ["u"])[0]
    out["wRMSE_base"] = {"ok": isinstance(base, SX) and bool(equal(base.e, wb)), "value": str(getattr(base, "e", base))[:120],
                         "stale": isinstance(base, SX) and any("A_" in str(x) for x in base.e.free_symbols)}
    return out
