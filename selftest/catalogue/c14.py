S = "opendsm/eemeter/models/daily/utilities/settings.py"
H = "opendsm/eemeter/models/hourly/settings.py"
B = "opendsm/common/base_settings.py"
BS = "opendsm/eemeter/models/billing/settings.py"
DM = "opendsm/eemeter/models/daily/model.py"
VARIANTS = [
    dict(id="c14-cvrmse-threshold-not-developer", property="C14", kind="break", expect_rule="R14.1", file=S,
         old='''        default=1,
        ge=0,
        developer=True,
        description="Threshold for the CVRMSE to disqualify a model",''', new='''        default=1,
        ge=0,
        developer=False,
        description="Threshold for the CVRMSE to disqualify a model",'''),
    dict(id="c14-regularization-default", property="C14", kind="break", expect_rule="R14.1", file=S,
         old="        default=0.001,\n        ge=0,\n        developer=True,", new="        default=0.01,\n        ge=0,\n        developer=True,"),
    dict(id="c14-penalty-power", property="C14", kind="break", expect_rule="R14.1", file=S, old="default=2.061,", new="default=2.0,"),
    dict(id="c14-algorithm-default", property="C14", kind="break", expect_rule="R14.1", file=S,
         old="        default=AlgorithmChoice.NLOPT_SBPLX,\n        developer=True,", new="        default=AlgorithmChoice.NLOPT_NELDERMEAD,\n        developer=True,"),
    dict(id="c14-billing-min-count", property="C14", kind="break", expect_rule="R14.1", file=BS, old="        default=3,\n        ge=3,", new="        default=4,\n        ge=3,"),
    dict(id="c14-hourly-alpha", property="C14", kind="break", expect_rule="R14.1", file=H, old="        default=0.0425,\n        ge=0,\n    )\n\n    \"\"\"ElasticNet l1_ratio", new="        default=0.05,\n        ge=0,\n    )\n\n    \"\"\"ElasticNet l1_ratio"),
    dict(id="c14-hourly-pnrmse-threshold", property="C14", kind="break", expect_rule="R14.1", file=H, old="        default=2.2,", new="        default=2.5,"),
    dict(id="c14-season-march-winter", property="C14", kind="break", expect_rule="R14.1", file=S, old='march: str = CustomField(default="shoulder")', new='march: str = CustomField(default="winter")'),
    dict(id="c14-constraint-loosened", property="C14", kind="break", expect_rule="R14.1", file=S,
         old="        default=6,\n        ge=3,", new="        default=6,\n        ge=1,"),
    dict(id="c14-legacy-smooth-on", property="C14", kind="break", expect_rule="R14.1", file=S,
         old='''class DailyLegacySettings(DailySettings):
    allow_smooth_model: bool = CustomField(
        default=False,''', new='''class DailyLegacySettings(DailySettings):
    allow_smooth_model: bool = CustomField(
        default=True,'''),
    dict(id="c14-new-unapproved-field", property="C14", kind="break", expect_rule="R14.1", file=S,
         old="    cvrmse_threshold: float = CustomField(\n        default=1,", new="    outlier_cap: float = CustomField(default=5.0, developer=False)\n\n    cvrmse_threshold: float = CustomField(\n        default=1,"),
    dict(id="c14-validator-skips-when-silent", property="C14", kind="break", expect_rule="R14.2", file=S,
         old="        _check_developer_mode(self)\n\n        return self", new="        if not self.silent_developer_mode:\n            _check_developer_mode(self)\n\n        return self"),
    dict(id="c14-validator-not-registered", property="C14", kind="break", expect_rule="R14.2", file=S,
         old='''    @pydantic.model_validator(mode="after")
    def _check_developer_mode(self):''', new='''    def _check_developer_mode(self):'''),
    dict(id="c14-checker-and-to-or-nested", property="C14", kind="break", expect_rule="R14.2", file=S,
         old='''        elif v.json_schema_extra["developer"] and getattr(cls, k) != v.default:''', new='''        elif v.json_schema_extra["developer"] and getattr(cls, k) == v.default:'''),
    dict(id="c14-checker-no-recursion", property="C14", kind="break", expect_rule="R14.2", file=S,
         old="            _check_developer_mode(getattr(cls, k))\n", new="            pass\n"),
    dict(id="c14-regress-subclass-bypass", property="C14", kind="break", expect_rule="R14.2", expect_key="nested-class-pinned", file=S,
         old='''            if (
                v.json_schema_extra["developer"]
                and v.default_factory is not None
                and type(getattr(cls, k)) is not v.default_factory
            ):
                raise ValueError(f"Developer mode is not enabled. Cannot change {k} from default value.")

''', new=""),
    dict(id="c14-field-via-pydantic-field", property="C14", kind="break", expect_rule="R14.2", file=S,
         old='''    uncertainty_alpha: float = CustomField(
        default=0.1,
        ge=0,
        le=1,
        developer=False,
        description="Significance level used for uncertainty calculations",
    )''', new='''    uncertainty_alpha: float = pydantic.Field(
        default=0.1,
        ge=0,
        le=1,
        description="Significance level used for uncertainty calculations",
    )'''),
    dict(id="c14-not-frozen", property="C14", kind="break", expect_rule="R14.3", file=B, old="frozen = True,", new="frozen = False,"),
    dict(id="c14-no-lowercase", property="C14", kind="break", expect_rule="R14.3", file=B, old="str_to_lower = True,", new="str_to_lower = False,"),
    dict(id="c14-model-forces-developer-mode", property="C14", kind="break", expect_rule="R14.4", file=DM,
         old="        if settings is None:\n            settings = {}\n\n        if model.replace", new="        if settings is None:\n            settings = {}\n        settings = {**settings, \"developer_mode\": True}\n\n        if model.replace"),
    dict(id="c14-escalated-settings-leak", property="C14", kind="break", expect_rule="R14.4", file=DM,
         old="            model[component].settings = self.settings  # overwrite to input settings\n", new=""),
    dict(id="c14-benign-description-edit", property="C14", kind="benign", file=S,
         old='description="Threshold for the CVRMSE to disqualify a model"', new='description="CVRMSE above which a model is disqualified"'),
    dict(id="c14-benign-default-float-spelling", property="C14", kind="benign", file=S,
         old="        default=1,\n        ge=0,\n        developer=True,\n        description=\"Threshold", new="        default=1.0,\n        ge=0.0,\n        developer=True,\n        description=\"Threshold"),
    dict(id="c14-benign-validator-early-else", property="C14", kind="benign", file=S,
         old="            return self\n        \n        _check_developer_mode(self)\n\n        return self", new="        else:\n            _check_developer_mode(self)\n\n        return self"),

    # ---- R14.6 cross-field validators
    dict(id="c14-fbs-zero-accepted", property="C14", kind="break", expect_rule="R14.6", file=S,
         old="            if self.final_bounds_scalar <= 0:", new="            if self.final_bounds_scalar < 0:"),
    dict(id="c14-step-half-rejected", property="C14", kind="break", expect_rule="R14.6", file=S,
         old="self.initial_step_percentage > 0.5:", new="self.initial_step_percentage >= 0.5:"),
    dict(id="c14-step-validator-unregistered", property="C14", kind="break", expect_rule="R14.6", file=S,
         old='    @pydantic.model_validator(mode="after")\n    def _check_initial_step_percentage(self):', new='    def _check_initial_step_percentage(self):'),
    dict(id="c14-alpha-final-upper-open", property="C14", kind="break", expect_rule="R14.6", file=S,
         old="(self.alpha_final > 2.0)", new="(self.alpha_final >= 2.0)"),
    dict(id="c14-alpha-final-str-unchecked", property="C14", kind="break", expect_rule="R14.6", file=S,
         old='            if self.alpha_final != "adaptive":', new='            if self.alpha_final == "":'),
    dict(id="c14-nlopt-prefix", property="C14", kind="break", expect_rule="R14.6", file=S,
         old='self.algorithm_choice[:5] in ["nlopt"]', new='self.algorithm_choice[:6] in ["nlopt"]'),
    dict(id="c14-num-std-or-to-and", property="C14", kind="break", expect_rule="R14.6", file=S,
         old="self.reduce_splits_num_std[0] <= 0 or self.reduce_splits_num_std[1] <= 0", new="self.reduce_splits_num_std[0] <= 0 and self.reduce_splits_num_std[1] <= 0"),
    dict(id="c14-season-option-check-dropped", property="C14", kind="break", expect_rule="R14.6", file=S,
         old="            if val not in self.options:\n                raise ValueError(f\"SeasonDefinition", new="            if val is None:\n                raise ValueError(f\"SeasonDefinition"),
    dict(id="c14-edge-bins-else-dropped", property="C14", kind="break", expect_rule="R14.6", file=H,
         old="            if self.edge_bin_rate is not None:\n                raise ValueError(\n                    \"'edge_bin_rate' must be None if 'include_edge_bins' is False.\"\n                )", new="            pass"),
    dict(id="c14-adaptive-weights-early-return", property="C14", kind="break", expect_rule="R14.6", file=H,
         old="    def _check_adaptive_weights(self):\n        if self.adaptive_weights:", new="    def _check_adaptive_weights(self):\n        if self.adaptive_weight_tol is None:\n            return self\n        if self.adaptive_weights:"),
    dict(id="c14-validator-returns-none", property="C14", kind="break", expect_rule="R14.6", file=S,
         old="                raise ValueError(\"`FINAL_BOUNDS_SCALAR` must be > 0 if `ALPHA_FINAL` is not None\")\n\n        return self", new="                raise ValueError(\"`FINAL_BOUNDS_SCALAR` must be > 0 if `ALPHA_FINAL` is not None\")\n"),
    dict(id="c14-benign-validator-demorgan", property="C14", kind="benign", file=S,
         old="            if self.initial_step_percentage <= 0 or self.initial_step_percentage > 0.5:", new="            if not (0 < self.initial_step_percentage <= 0.5):"),
    dict(id="c14-benign-validator-startswith", property="C14", kind="benign", file=S,
         old='self.algorithm_choice[:5] in ["nlopt"]', new='self.algorithm_choice.startswith("nlopt")'),
    dict(id="c14-benign-validator-renamed", property="C14", kind="benign", file=H,
         old="    def _check_adaptive_weights(self):", new="    def _validate_adaptive_weight_options(self):"),
    dict(id="c14-benign-validators-merged", property="C14", kind="benign", file=S,
         old="                raise ValueError(\"`FINAL_BOUNDS_SCALAR` must be > 0 if `ALPHA_FINAL` is not None\")\n\n        return self\n\n    \n    @pydantic.model_validator(mode=\"after\")\n    def _check_initial_step_percentage(self):\n",
         new="                raise ValueError(\"`FINAL_BOUNDS_SCALAR` must be > 0 if `ALPHA_FINAL` is not None\")\n\n"),
    {'id': 'c14-keys-fast-path-islower', 'property': 'C14', 'kind': 'break', 'expect_rule': 'R14.3', 'expect_key': 'keys-normalised', 'file': 'opendsm/common/base_settings.py', 'old': '        return __lower__(values)', 'new': '        if isinstance(values, dict) and all((not isinstance(k, str)) or k.islower() for k in values):\n            return values\n        return __lower__(values)'},
    {'id': 'c14-keys-strip-dropped', 'property': 'C14', 'kind': 'break', 'expect_rule': 'R14.3', 'expect_key': 'keys-normalised', 'file': 'opendsm/common/base_settings.py', 'old': 'return {k.lower().strip() if isinstance(k, str) else k: __lower__(v) for k, v in value.items()}', 'new': 'return {k.lower() if isinstance(k, str) else k: __lower__(v) for k, v in value.items()}'},
    {'id': 'c14-keys-not-recursive', 'property': 'C14', 'kind': 'break', 'expect_rule': 'R14.3', 'expect_key': 'keys-normalised', 'file': 'opendsm/common/base_settings.py', 'old': 'return {k.lower().strip() if isinstance(k, str) else k: __lower__(v) for k, v in value.items()}', 'new': 'return {k.lower().strip() if isinstance(k, str) else k: v for k, v in value.items()}'},
    {'id': 'c14-values-strip-dropped', 'property': 'C14', 'kind': 'break', 'expect_rule': 'R14.3', 'expect_key': 'values-normalised', 'file': 'opendsm/common/base_settings.py', 'old': '            return v.lower().strip()', 'new': '            return v.lower()'},
    {'id': 'c14-benign-keys-loop', 'property': 'C14', 'kind': 'benign', 'file': 'opendsm/common/base_settings.py', 'old': '                return {k.lower().strip() if isinstance(k, str) else k: __lower__(v) for k, v in value.items()}', 'new': '                out = {}\n                for k, v in value.items():\n                    if isinstance(k, str):\n                        k = k.strip().lower()\n                    out[k] = __lower__(v)\n                return out'},
    {'id': 'c14-checker-returns-at-nested', 'property': 'C14', 'kind': 'break', 'expect_rule': 'R14.2', 'expect_key': 'iterates-all-fields', 'file': 'opendsm/eemeter/models/daily/utilities/settings.py', 'old': '            _check_developer_mode(getattr(cls, k))\n', 'new': '            return _check_developer_mode(getattr(cls, k))\n'},
    {'id': 'c14-benign-checker-class-fields', 'property': 'C14', 'kind': 'benign', 'file': 'opendsm/eemeter/models/daily/utilities/settings.py', 'old': '    for k, v in cls.model_fields.items():', 'new': '    for k, v in type(cls).model_fields.items():'},
    {'id': 'c14-adaptive-tol-falsy', 'property': 'C14', 'kind': 'break', 'expect_rule': 'R14.6', 'file': 'opendsm/eemeter/models/hourly/settings.py', 'old': '            if self.adaptive_weight_tol is not None:\n                raise ValueError(\n                    "\'adaptive_weight_tol\' must be None if \'adaptive_weights\' is False."', 'new': '            if self.adaptive_weight_tol:\n                raise ValueError(\n                    "\'adaptive_weight_tol\' must be None if \'adaptive_weights\' is False."'},
    {'id': 'c14-defaults-cached-on-class', 'property': 'C14', 'kind': 'break', 'expect_rule': 'R14.2', 'expect_key': 'own-approved-values-whatever-came-before', 'edits': [{'file': 'opendsm/eemeter/models/daily/utilities/settings.py', 'old': '        elif v.json_schema_extra["developer"] and getattr(cls, k) != v.default:', 'new': '        elif v.json_schema_extra["developer"] and getattr(cls, k) != _approved(type(cls)).get(k, v.default):'}, {'file': 'opendsm/eemeter/models/daily/utilities/settings.py', 'old': 'def _check_developer_mode(cls):   \n', 'new': 'def _approved(klass):\n    if not hasattr(klass, "_approved_values"):\n        klass._approved_values = {k: v.default for k, v in klass.model_fields.items() if v.default_factory is None}\n    return klass._approved_values\n\n\ndef _check_developer_mode(cls):   \n'}]},
]
