S = "opendsm/eemeter/models/hourly_caltrack/segmentation.py"
M = "opendsm/eemeter/models/hourly_caltrack/model.py"
F = "opendsm/eemeter/common/features.py"
VARIANTS = [
    dict(id="c18-route-jan-wrong-window", property="C18", kind="break", expect_rule="R18.2", file=M,
         old='"jan": "dec-jan-feb-weighted",', new='"jan": "jan-feb-mar-weighted",'),
    dict(id="c18-half-weight-to-one", property="C18", kind="break", expect_rule="R18.1", file=S,
         old='("mar-apr-may-weighted", {"3": 0.5, "4": 1, "5": 0.5}),', new='("mar-apr-may-weighted", {"3": 1, "4": 1, "5": 0.5}),'),
    dict(id="c18-weighted-key-int", property="C18", kind="break", expect_rule="R18.1", file=S,
         old="lambda i: month_weights.get(str(i), 0.0)", new="lambda i: month_weights.get(i, 0.0)"),
    dict(id="c18-weighted-default-half", property="C18", kind="break", expect_rule="R18.1", file=S,
         old="lambda i: month_weights.get(str(i), 0.0)", new="lambda i: month_weights.get(str(i), 0.5)"),
    dict(id="c18-one-month-swapped", property="C18", kind="break", expect_rule="R18.1", file=S,
         old='                ("jun", 6),\n                ("jul", 7),', new='                ("jun", 7),\n                ("jul", 6),'),
    dict(id="c18-three-month-window-shift", property="C18", kind="break", expect_rule="R18.1", file=S,
         old='("aug-sep-oct", (8, 9, 10)),', new='("aug-sep-oct", (8, 9, 11)),'),
    dict(id="c18-columns-typo", property="C18", kind="break", expect_rule="R18.1", file=S, count=1,
         old='            "sep-oct-nov-weighted",\n            "oct-nov-dec-weighted",', new='            "sep-oct-nov_weighted",\n            "oct-nov-dec-weighted",'),
    dict(id="c18-dispatch-swapped", property="C18", kind="break", expect_rule="R18.1", file=S,
         old='"three_month": _segment_weights_three_month,', new='"three_month": _segment_weights_three_month_weighted,'),
    dict(id="c18-prediction-type-three-month", property="C18", kind="break", expect_rule="R18.2", file=M,
         old='            self.prediction_segment_type = "one_month"', new='            self.prediction_segment_type = "three_month_weighted"'),
    dict(id="c18-lookup-direction", property="C18", kind="break", expect_rule="R18.2", file=S,
         old="pred_name: fitted_model_lookup.get(fit_name)", new="fit_name: fitted_model_lookup.get(pred_name)"),
    dict(id="c18-keep-zero-weight-rows", property="C18", kind="break", expect_rule="R18.2", file=S,
         old="prediction = prediction[segmented_data.weight > 0].reindex(prediction_index)", new="prediction = prediction[segmented_data.weight >= 0].reindex(prediction_index)"),
    dict(id="c18-sum-without-min-count", property="C18", kind="break", expect_rule="R18.2", file=S,
         old="predictions.sum(axis=1, min_count=1)", new="predictions.sum(axis=1)"),
    dict(id="c18-how-25", property="C18", kind="break", expect_rule="R18.3", file=F,
         old="how_feature = (dow_feature * 24 + hod_feature)", new="how_feature = (dow_feature * 25 + hod_feature)"),
    dict(id="c18-how-universe", property="C18", kind="break", expect_rule="R18.3", file=F, old="total = set(range(168))", new="total = set(range(167))"),
    dict(id="c18-unoccupied-mask-same", property="C18", kind="break", expect_rule="R18.4", file=M, count=2,
         old="unoccupied_temperature_bin_features[occupancy_feature == 1] = 0", new="unoccupied_temperature_bin_features[occupancy_feature == 0] = 0"),
    dict(id="c18-prediction-processor-diverges", property="C18", kind="break", expect_rule="R18.4", file=M,
         old='''    occupied_temperature_bin_features[occupancy_feature == 0] = 0
    occupied_temperature_bin_features.rename(
        columns={
            c: "{}_occupied".format(c)
            for c in occupied_temperature_bin_features.columns
        },
        inplace=True,
    )
    unoccupied_temperature_bin_features = compute_temperature_bin_features(
        segmented_data.temperature_mean, unoccupied_bin_endpoints_list
    )
    unoccupied_temperature_bin_features[occupancy_feature == 1] = 0
    unoccupied_temperature_bin_features.rename(
        columns={
            c: "{}_unoccupied".format(c)
            for c in unoccupied_temperature_bin_features.columns
        },
        inplace=True,
    )

    # combine features
    return merge_features(
        [
            hour_of_week_feature,''',
         new='''    occupied_temperature_bin_features[occupancy_feature != 1] = 0
    occupied_temperature_bin_features.rename(
        columns={
            c: "{}_occupied".format(c)
            for c in occupied_temperature_bin_features.columns
        },
        inplace=True,
    )
    unoccupied_temperature_bin_features = compute_temperature_bin_features(
        segmented_data.temperature_mean, unoccupied_bin_endpoints_list
    )
    unoccupied_temperature_bin_features[occupancy_feature == 1] = 0
    unoccupied_temperature_bin_features.rename(
        columns={
            c: "{}_unoccupied".format(c)
            for c in unoccupied_temperature_bin_features.columns
        },
        inplace=True,
    )

    # combine features
    return merge_features(
        [
            hour_of_week_feature,'''),
    dict(id="c18-bin-width-right-only", property="C18", kind="break", expect_rule="R18.5", file=F,
         old="pd.Series(right_bin - left_bin, index=gt_bin_index)", new="pd.Series(right_bin, index=gt_bin_index)"),
    dict(id="c18-bin-in-bin-offset-dropped", property="C18", kind="break", expect_rule="R18.5", file=F,
         old="temps_in_bin = _expand_and_fill(temperatures[in_bin] - left_bin)", new="temps_in_bin = _expand_and_fill(temperatures[in_bin])"),
    dict(id="c18-bin-nan-not-remasked", property="C18", kind="break", expect_rule="R18.5", file=F,
         old="        bins[bin_name] = _mask_nans(bin_values)", new="        bins[bin_name] = bin_values"),
    dict(id="c18-bin0-out-of-bin-uses-left", property="C18", kind="break", expect_rule="R18.5", file=F,
         old="                pd.Series(right_bin, index=not_in_bin_index)", new="                pd.Series(left_bin, index=not_in_bin_index)"),
    dict(id="c18-bins-by-clip-first-bin-from-zero", property="C18", kind="break", expect_rule="R18.5", file=F,
         old='        in_bin = (temperatures > left_bin) & (temperatures <= right_bin)\n        gt_bin = temperatures > right_bin\n\n        not_in_bin_index = temperatures.index[~in_bin]\n        gt_bin_index = temperatures.index[gt_bin]\n\n        def _expand_and_fill(partial_temp_series):\n            return partial_temp_series.reindex(temperatures.index, fill_value=0)\n\n        def _mask_nans(temp_series):\n            return temp_series[temperatures.notnull()].reindex(temperatures.index)\n\n        if i == 0:\n            temps_in_bin = _expand_and_fill(temperatures[in_bin])\n            temps_out_of_bin = _expand_and_fill(\n                pd.Series(right_bin, index=not_in_bin_index)\n            )\n            bin_values = temps_in_bin + temps_out_of_bin\n        else:\n            temps_in_bin = _expand_and_fill(temperatures[in_bin] - left_bin)\n            temps_gt_bin = _expand_and_fill(\n                pd.Series(right_bin - left_bin, index=gt_bin_index)\n            )\n            bin_values = temps_in_bin + temps_gt_bin\n        bins[bin_name] = _mask_nans(bin_values)\n',
         new="        bin_start = 0 if i == 0 else left_bin\n        bins[bin_name] = (temperatures - bin_start).clip(lower=0, upper=right_bin - bin_start)\n"),
    dict(id="c18-benign-bins-by-clip", property="C18", kind="benign", file=F,
         old='        in_bin = (temperatures > left_bin) & (temperatures <= right_bin)\n        gt_bin = temperatures > right_bin\n\n        not_in_bin_index = temperatures.index[~in_bin]\n        gt_bin_index = temperatures.index[gt_bin]\n\n        def _expand_and_fill(partial_temp_series):\n            return partial_temp_series.reindex(temperatures.index, fill_value=0)\n\n        def _mask_nans(temp_series):\n            return temp_series[temperatures.notnull()].reindex(temperatures.index)\n\n        if i == 0:\n            temps_in_bin = _expand_and_fill(temperatures[in_bin])\n            temps_out_of_bin = _expand_and_fill(\n                pd.Series(right_bin, index=not_in_bin_index)\n            )\n            bin_values = temps_in_bin + temps_out_of_bin\n        else:\n            temps_in_bin = _expand_and_fill(temperatures[in_bin] - left_bin)\n            temps_gt_bin = _expand_and_fill(\n                pd.Series(right_bin - left_bin, index=gt_bin_index)\n            )\n            bin_values = temps_in_bin + temps_gt_bin\n        bins[bin_name] = _mask_nans(bin_values)\n',
         new="        if i == 0:\n            bins[bin_name] = temperatures.clip(upper=right_bin)\n        else:\n            bins[bin_name] = (temperatures - left_bin).clip(lower=0, upper=right_bin - left_bin)\n"),
    dict(id="c18-benign-bin-boundary-closed-left", property="C18", kind="benign", file=F,
         old="        in_bin = (temperatures > left_bin) & (temperatures <= right_bin)\n        gt_bin = temperatures > right_bin",
         new="        in_bin = (temperatures >= left_bin) & (temperatures < right_bin)\n        gt_bin = temperatures >= right_bin"),
    dict(id="c18-benign-how-reordered", property="C18", kind="benign", file=F,
         old="how_feature = (dow_feature * 24 + hod_feature)", new="how_feature = (hod_feature + 24 * dow_feature)"),
]
