M = "opendsm/common/metrics.py"
H = "opendsm/eemeter/models/hourly/model.py"
D = "opendsm/eemeter/models/daily/model.py"
VARIANTS = [
    dict(id="c16-mse-over-ddof", property="C16", kind="break", expect_rule="R16.1", file=M, old="        return self.sse / self.n\n", new="        return self.sse / self.ddof\n"),
    dict(id="c16-rmse-adj-over-n", property="C16", kind="break", expect_rule="R16.1", file=M, old="return (self.sse / self.ddof) ** 0.5", new="return (self.sse / self.n) ** 0.5"),
    dict(id="c16-ddof-plus", property="C16", kind="break", expect_rule="R16.1", file=M, old="_ddof = self.n - self.num_model_params", new="_ddof = self.n + self.num_model_params"),
    dict(id="c16-ddof-clamp-zero", property="C16", kind="break", expect_rule="R16.1", file=M,
         old="        if _ddof < 1:\n            # TODO: Create warning\n            _ddof = 1\n\n        return _ddof", new="        if _ddof < 0:\n            # TODO: Create warning\n            _ddof = 0\n\n        return _ddof"),
    dict(id="c16-nprime-inverted", property="C16", kind="break", expect_rule="R16.1", file=M,
         old="_n_prime = float(self.n * (1 - autocorr) / (1 + autocorr))", new="_n_prime = float(self.n * (1 + autocorr) / (1 - autocorr))"),
    dict(id="c16-cvrmse-over-predicted-mean", property="C16", kind="break", expect_rule="R16.1", file=M,
         old="return _safe_divide(self.rmse, self.observed.mean, self._min_denominator)", new="return _safe_divide(self.rmse, self.predicted.mean, self._min_denominator)"),
    dict(id="c16-pnrmse-adj-uses-rmse", property="C16", kind="break", expect_rule="R16.1", file=M,
         old="return _safe_divide(self.rmse_adj, self.observed.iqr, self._min_denominator)", new="return _safe_divide(self.rmse, self.observed.iqr, self._min_denominator)"),
    dict(id="c16-variance-ddof1", property="C16", kind="break", expect_rule="R16.1", file=M, old="return self.series.var(ddof=0)", new="return self.series.var(ddof=1)"),
    dict(id="c16-iqr-quantiles", property="C16", kind="break", expect_rule="R16.1", file=M, old="np.quantile(self.series, [0.25, 0.75])", new="np.quantile(self.series, [0.2, 0.8])"),
    dict(id="c16-mbe-of-predicted", property="C16", kind="break", expect_rule="R16.1", file=M, old="        return self.residuals.mean\n", new="        return self.predicted.mean\n"),
    dict(id="c16-residual-sign", property="C16", kind="break", expect_rule="R16.1", file=M,
         old='        _df["residuals"] = _df["observed"] - _df["predicted"]', new='        _df["residuals"] = _df["predicted"] - _df["observed"]'),
    dict(id="c16-finite-filter-or", property="C16", kind="break", expect_rule="R16.1", file=M, count=2,
         old='_df = _df[np.isfinite(_df["observed"]) & np.isfinite(_df["predicted"])]', new='_df = _df[np.isfinite(_df["observed"]) | np.isfinite(_df["predicted"])]'),
    dict(id="c16-r2-adj-n", property="C16", kind="break", expect_rule="R16.1", file=M, old="num = (1 - self.r_squared) * (n - 1)", new="num = (1 - self.r_squared) * n"),
    dict(id="c16-savings-sign", property="C16", kind="break", expect_rule="R16.1", file=M, old="return self.predicted_sum - self.observed_sum", new="return self.observed_sum - self.predicted_sum"),
    dict(id="c16-hourly-multiplier", property="C16", kind="break", expect_rule="R16.1", file=M, old="s_unc = 1.26 * s_unc_base", new="s_unc = 1.62 * s_unc_base"),
    dict(id="c16-billing-poly-swapped", property="C16", kind="break", expect_rule="R16.1", file=M,
         old='            if self.data_frequency == "daily":\n                coefs = [-0.00024, 0.03535, 1.00286]', new='            if self.data_frequency == "billing":\n                coefs = [-0.00024, 0.03535, 1.00286]'),
    dict(id="c16-approx-factor", property="C16", kind="break", expect_rule="R16.1", file=M, old="(1 + (2 / n_prime))", new="(1 + (1 / n_prime))"),
    dict(id="c16-daily-pnrmse-quantiles", property="C16", kind="break", expect_rule="R16.1", file=D, old="np.quantile(obs, [0.05, 0.95])", new="np.quantile(obs, [0.25, 0.75])"),
    dict(id="c16-daily-cvrmse-median", property="C16", kind="break", expect_rule="R16.1", file=D, old="CVRMSE = RMSE / np.mean(obs)", new="CVRMSE = RMSE / np.median(obs)"),
    dict(id="c16-daily-error-keys-swapped", property="C16", kind="break", expect_rule="R16.1", file=D,
         old='self.error["CVRMSE"] = float(CVRMSE)', new='self.error["CVRMSE"] = float(PNRMSE)'),
    dict(id="c16-cvrmse-plain-division", property="C16", kind="break", expect_rule="R16.2", file=M,
         old="        return _safe_divide(self.rmse, self.observed.mean, self._min_denominator)", new="        return self.rmse / self.observed.mean"),
    dict(id="c16-safe-divide-never-none", property="C16", kind="break", expect_rule="R16.2", file=M,
         old="    if denominator <= min_denominator and numerator > 10 * min_denominator:\n        return None\n", new="    if denominator <= min_denominator and numerator > 10 * min_denominator:\n        return 0.0\n"),
    dict(id="c16-hourly-gate-and", property="C16", kind="break", expect_rule="R16.3", file=H,
         old="cvrmse < self.settings.cvrmse_threshold) or (", new="cvrmse < self.settings.cvrmse_threshold) and ("),
    dict(id="c16-hourly-gate-unadjusted", property="C16", kind="break", expect_rule="R16.3", file=H,
         old="        cvrmse = self.baseline_metrics.cvrmse_adj", new="        cvrmse = self.baseline_metrics.cvrmse"),
    dict(id="c16-hourly-gate-thresholds-swapped", property="C16", kind="break", expect_rule="R16.3", file=H,
         old="pnrmse is not None and pnrmse < self.settings.pnrmse_threshold", new="pnrmse is not None and pnrmse < self.settings.cvrmse_threshold"),
    dict(id="c16-daily-gate-ge", property="C16", kind="break", expect_rule="R16.3", file=D,
         old='if self.error["CVRMSE"] > self.settings.cvrmse_threshold:', new='if self.error["CVRMSE"] >= self.settings.cvrmse_threshold:'),
    dict(id="c16-hourly-metrics-include-interpolated", property="C16", kind="break", expect_rule="R16.4", file=H, count=2,
         old="            df=df_meter.loc[~interpolated], num_model_params=num_parameters", new="            df=df_meter, num_model_params=num_parameters"),
    dict(id="c16-adaptive-fit-diverges", property="C16", kind="break", expect_rule="R16.4", file=H,
         old='''            weights *= weights_prior

            if alpha == 2:
                break

        self.is_fitted = True

        # get number of model parameters
        num_parameters = np.count_nonzero(self._model.coef_) + np.count_nonzero(
            self._model.intercept_
        )''', new='''            weights *= weights_prior

            if alpha == 2:
                break

        self.is_fitted = True

        # get number of model parameters
        num_parameters = np.count_nonzero(self._model.coef_)'''),
    dict(id="c16-benign-sqrt-spelling", property="C16", kind="benign", file=M, old="        return self.mse**0.5\n", new="        return np.sqrt(self.mse)\n"),
    dict(id="c16-benign-inline-mse", property="C16", kind="benign", file=M, old="return (self.sse / self.ddof) ** 0.5", new="return np.sqrt(self.residuals.sum_squared / self.ddof)"),
    dict(id="c16-benign-gate-reordered", property="C16", kind="benign", file=H,
         old='''        if (cvrmse is not None and cvrmse < self.settings.cvrmse_threshold) or (
            pnrmse is not None and pnrmse < self.settings.pnrmse_threshold
        ):
            return True''', new='''        if pnrmse is not None and pnrmse < self.settings.pnrmse_threshold:
            return True
        if cvrmse is not None and not (cvrmse >= self.settings.cvrmse_threshold):
            return True
        return False'''),
]
