D = "opendsm/eemeter/models/daily/model.py"
NOOP = '''        if mask_observed_with_missing_temperature:
            dropped_rows[dropped_rows["temperature"].isna()]["observed"] = np.nan
'''
FIXED = '''        if mask_observed_with_missing_temperature and "observed" in dropped_rows.columns:
            dropped_rows = dropped_rows.copy()
            # a non-finite temperature is dropped before prediction like a missing one
            no_temperature = dropped_rows["temperature"].isna() | dropped_rows[
                "temperature"
            ].isin([np.inf, -np.inf])
            dropped_rows.loc[no_temperature, "observed"] = np.nan
'''
VARIANTS = [
    # the repaired tree's .loc store and the equivalent Series.mask form are both accepted
    dict(id="c07-benign-mask-form", property="C07", kind="benign", file=D, old=FIXED,
         new='''        if mask_observed_with_missing_temperature and "observed" in dropped_rows.columns:
            missing_T = ~np.isfinite(dropped_rows["temperature"])
            dropped_rows["observed"] = dropped_rows["observed"].mask(missing_T)
'''),
    # F27 (fixed bcf1a275): days whose temperature is +-inf are dropped like days without temperature and must lose their usage too
    dict(id="c07-regress-only-nan-temperature-masked", property="C07", kind="break", expect_rule="R07.2", expect_key="mask-observed-where-temperature-not-finite", file=D, old=FIXED,
         new='''        if mask_observed_with_missing_temperature and "observed" in dropped_rows.columns:
            dropped_rows = dropped_rows.copy()
            dropped_rows.loc[dropped_rows["temperature"].isna(), "observed"] = np.nan
'''),
    dict(id="c07-only-positive-inf-masked", property="C07", kind="break", expect_rule="R07.2", expect_key="mask-observed-where-temperature-not-finite", file=D, old=FIXED,
         new='''        if mask_observed_with_missing_temperature and "observed" in dropped_rows.columns:
            dropped_rows = dropped_rows.copy()
            dropped_rows.loc[dropped_rows["temperature"].isna() | (dropped_rows["temperature"] == np.inf), "observed"] = np.nan
'''),
    dict(id="c07-benign-mask-by-isinf", property="C07", kind="benign", file=D, old=FIXED,
         new='''        if mask_observed_with_missing_temperature and "observed" in dropped_rows.columns:
            dropped_rows = dropped_rows.copy()
            unusable = dropped_rows["temperature"].isna() | np.isinf(dropped_rows["temperature"])
            dropped_rows.loc[unusable, "observed"] = np.nan
'''),
    # on the repaired tree: regressions
    dict(id="c07-regress-chained-noop", property="C07", kind="break", expect_rule="R07.1", file=D, old=FIXED, new=NOOP),
    dict(id="c07-mask-store-deleted", property="C07", kind="break", expect_rule="R07.2", file=D, old=FIXED, new=""),
    dict(id="c07-mask-on-wrong-column", property="C07", kind="break", expect_rule="R07.2", file=D, old=FIXED,
         new='''        if mask_observed_with_missing_temperature and "observed" in dropped_rows.columns:
            dropped_rows.loc[dropped_rows["observed"].isna(), "observed"] = np.nan
'''),
    dict(id="c07-mask-inverted", property="C07", kind="break", expect_rule="R07.2", file=D, old=FIXED,
         new='''        if mask_observed_with_missing_temperature and "observed" in dropped_rows.columns:
            dropped_rows.loc[dropped_rows["temperature"].notna(), "observed"] = np.nan
'''),
    dict(id="c07-mask-only-when-verbose", property="C07", kind="break", expect_rule="R07.2", file=D, old=FIXED,
         new='''        if mask_observed_with_missing_temperature and "observed" in dropped_rows.columns and self.verbose:
            dropped_rows.loc[dropped_rows["temperature"].isna(), "observed"] = np.nan
'''),
    dict(id="c07-flag-default-false", property="C07", kind="break", expect_rule="R07.2", file=D,
         old="def _predict(self, df_eval, mask_observed_with_missing_temperature=True):",
         new="def _predict(self, df_eval, mask_observed_with_missing_temperature=False):"),
    dict(id="c07-caller-disables", property="C07", kind="break", expect_rule="R07.2", file=D,
         old="        df_res = self._predict(df)\n\n        return df_res",
         new="        df_res = self._predict(df, mask_observed_with_missing_temperature=False)\n\n        return df_res"),
    dict(id="c07-outer-join", property="C07", kind="break", expect_rule="R07.3", file=D,
         old="df_eval = df_eval.join(df_model_prediction)", new="df_eval = df_eval.join(df_model_prediction, how=\"outer\")"),
    dict(id="c07-benign-dropna-subset", property="C07", kind="benign", file=D,
         old="        meter_data = meter_data.dropna()\n", new="        meter_data = meter_data.dropna(subset=[\"temperature\", \"observed\"] if \"observed\" in cols else [\"temperature\"])\n"),
    dict(id="c07-benign-observed-finite-filter-dropped", property="C07", kind="benign", file=D,
         old='''        if "observed" in cols:
            meter_data = meter_data[np.isfinite(meter_data["observed"])]
''', new=""),
    dict(id="c07-missing-observed-kept", property="C07", kind="break", expect_rule="R07.3", expect_key="kept-rows-complete", file=D,
         edits=[dict(file=D, old="        meter_data = meter_data.dropna()\n", new="        meter_data = meter_data.dropna(subset=[\"temperature\"])\n"),
                dict(file=D, old='''        if "observed" in cols:
            meter_data = meter_data[np.isfinite(meter_data["observed"])]
''', new="")]),
    dict(id="c07-dropped-rows-not-appended", property="C07", kind="break", expect_rule="R07.3", file=D,
         old="df_eval = pd.concat([df_eval, dropped_rows])", new="df_eval = pd.concat([df_eval])"),
    dict(id="c07-billing-observed-from-unmasked-input", property="C07", kind="break", expect_rule="R07.4", file="opendsm/eemeter/models/billing/model.py",
         old='                observed = df_res["observed"].resample(agg).sum()', new='                observed = df["observed"].resample(agg).sum()'),
    dict(id="c07-benign-rename-local", property="C07", kind="benign", file=D, count=2,
         old="df_model_prediction", new="df_pred_all"),
    dict(id="c07-benign-explicit-left", property="C07", kind="benign", file=D,
         old="df_eval = df_eval.join(df_model_prediction)", new="df_eval = df_eval.join(df_model_prediction, how=\"left\")"),
]
