HTC = "opendsm/eemeter/models/daily/base_models/hdd_tidd_cdd.py"
CHT = "opendsm/eemeter/models/daily/base_models/c_hdd_tidd.py"
PA = "opendsm/eemeter/models/daily/parameters.py"
OR = "opendsm/eemeter/models/daily/optimize_results.py"
D = "opendsm/eemeter/models/daily/model.py"
BM = "opendsm/eemeter/models/daily/utilities/base_model.py"
VARIANTS = [
    dict(id="c12-bounds-positions-swapped", property="C12", kind="break", expect_rule="R12.1", file=HTC,
         old="        bnds_0 = [\n            c_hdd_bnds,\n            c_hdd_beta_bnds,\n            c_hdd_bnds,\n            c_hdd_beta_bnds,\n            intercept_bnds,\n        ]",
         new="        bnds_0 = [\n            c_hdd_bnds,\n            c_hdd_bnds,\n            c_hdd_beta_bnds,\n            c_hdd_beta_bnds,\n            intercept_bnds,\n        ]"),
    dict(id="c12-slope-lower-bound-negative", property="C12", kind="break", expect_rule="R12.1", file=HTC,
         old="    c_hdd_beta_bnds = [0, np.abs(max_slope)]", new="    c_hdd_beta_bnds = [-np.abs(max_slope), np.abs(max_slope)]"),
    dict(id="c12-k-upper-bound", property="C12", kind="break", expect_rule="R12.1", file=HTC, old="        c_hdd_k_bnds = [0, 1]\n", new="        c_hdd_k_bnds = [0, 2]\n"),
    dict(id="c12-intercept-quantiles", property="C12", kind="break", expect_rule="R12.1", file=HTC,
         old="    intercept_bnds = np.quantile(obs, [0.01, 0.99])", new="    intercept_bnds = np.quantile(obs, [0.0, 1.5])"),
    dict(id="c12-clamp-misses-cdd-k", property="C12", kind="break", expect_rule="R12.1", file=HTC, old="        beta_k_idx = [1, 2, 4, 5]", new="        beta_k_idx = [1, 2, 4]"),
    dict(id="c12-update-resets-slope-position", property="C12", kind="break", expect_rule="R12.1", file=HTC,
         old="    if smooth:\n        new_bnds[3] = bnds[3]\n    else:\n        new_bnds[2] = bnds[2]", new="    if smooth:\n        new_bnds[4] = bnds[4]\n    else:\n        new_bnds[2] = bnds[2]"),
    dict(id="c12-c-hdd-sign-range-swapped", property="C12", kind="break", expect_rule="R12.1", file=CHT,
         old="    elif tdd_beta < 0:\n        c_hdd_beta_bnds = [-max_slope, 0]\n    else:\n        c_hdd_beta_bnds = [0, max_slope]", new="    elif tdd_beta < 0:\n        c_hdd_beta_bnds = [0, max_slope]\n    else:\n        c_hdd_beta_bnds = [-max_slope, 0]"),
    dict(id="c12-weight-fcn-mismatch", property="C12", kind="break", expect_rule="R12.2", file=HTC,
         old="        model_fcn = _hdd_tidd_cdd\n        weight_fcn = _hdd_tidd_cdd_weight", new="        model_fcn = _hdd_tidd_cdd\n        weight_fcn = _hdd_tidd_cdd_smooth_weight"),
    dict(id="c12-model-fcn-param-order", property="C12", kind="break", expect_rule="R12.2", file=HTC,
         old="def _hdd_tidd_cdd(\n    hdd_bp,\n    hdd_beta,\n    cdd_bp,\n    cdd_beta,\n    intercept,", new="def _hdd_tidd_cdd(\n    hdd_bp,\n    cdd_bp,\n    hdd_beta,\n    cdd_beta,\n    intercept,"),
    dict(id="c12-from-np-arrays-sign", property="C12", kind="break", expect_rule="R12.3", file=PA, count=2,
         old="            if coefficients[1] < 0:  # model is heating dependent", new="            if coefficients[1] > 0:  # model is heating dependent"),
    dict(id="c12-x0-missing-k", property="C12", kind="break", expect_rule="R12.3", file=HTC,
         old="        model_type = ModelType.HDD_TIDD_CDD_SMOOTH\n        hdd_k = x0[2]\n        cdd_k = x0[5]", new="        model_type = ModelType.HDD_TIDD_CDD_SMOOTH\n        hdd_k = x0[2]\n        cdd_k = None"),
    dict(id="c12-reduce-heating-sign-lost", property="C12", kind="break", expect_rule="R12.3", file=OR,
         old="        if hdd_bp >= T_max_seg:\n            hdd_bp = T_max_seg\n\n        hdd_beta = -hdd_beta\n        x = [hdd_bp, hdd_beta, intercept]", new="        if hdd_bp >= T_max_seg:\n            hdd_bp = T_max_seg\n\n        x = [hdd_bp, hdd_beta, intercept]"),
    dict(id="c12-reduce-wrong-shape-for-two-slopes", property="C12", kind="break", expect_rule="R12.3", file=OR,
         old="    elif (cdd_beta != 0) and (hdd_beta != 0) and (pct_cdd_k == 0) and (pct_hdd_k == 0):\n        coef_id = [\"hdd_bp\", \"hdd_beta\", \"cdd_bp\", \"cdd_beta\", \"intercept\"]\n        x = [hdd_bp, hdd_beta, cdd_bp, cdd_beta, intercept]",
         new="    elif (cdd_beta != 0) and (hdd_beta != 0) and (pct_cdd_k == 0) and (pct_hdd_k == 0):\n        coef_id = [\"c_hdd_bp\", \"c_hdd_beta\", \"intercept\"]\n        x = [hdd_bp, hdd_beta, intercept]"),
    dict(id="c12-limits-swapped", property="C12", kind="break", expect_rule="R12.4", file=D,
         old="                \"T_min_seg\": submodel.T_min_seg,\n                \"T_max_seg\": submodel.T_max_seg,", new="                \"T_min_seg\": submodel.T_max_seg,\n                \"T_max_seg\": submodel.T_min_seg,"),
    dict(id="c12-limit-key-renamed", property="C12", kind="break", expect_rule="R12.4", file=D,
         old="                \"T_min\": submodel.T_min,\n", new="                \"Tmin\": submodel.T_min,\n"),
    dict(id="c12-seg-bounds-off-by-one", property="C12", kind="break", expect_rule="R12.4", file=BM,
         old="    T_max_seg = np.partition(T, -n_min_seg)[-n_min_seg]", new="    T_max_seg = np.partition(T, -n_min_seg)[-n_min_seg - 1]"),
    dict(id="c12-benign-bounds-names", property="C12", kind="benign", file=HTC, count=3, old="c_hdd_k_bnds", new="k_bnds"),
]
