H = "opendsm/eemeter/models/hourly/model.py"
D = "opendsm/eemeter/models/daily/model.py"
W = "opendsm/eemeter/models/hourly_caltrack/wrapper.py"
S = "opendsm/eemeter/models/hourly_caltrack/segmentation.py"
VARIANTS = [
    dict(id="c05-regress-dst-from-usage-count", property="C05", kind="break", expect_rule="R05.1", file=H,
         old="    counts = df.groupby(df.index.date).size()\n    interp = counts[counts == 23]\n    mean = counts[counts == 25]\n",
         new="    counts = df.groupby(df.index.date).count()\n    interp = counts[counts[\"observed\"] == 23]\n    mean = counts[counts[\"observed\"] == 25]\n"),
    dict(id="c05-daily-temperature-adjusted-by-usage", property="C05", kind="break", expect_rule="R05.3", file=D,
         old="            T = eval_segment[\"temperature\"].values\n", new="            T = eval_segment[\"temperature\"].values + 0.0 * eval_segment[\"observed\"].fillna(0).values\n"),
    dict(id="c05-daily-bias-correction", property="C05", kind="break", expect_rule="R05.1", file=D,
         old="        df_model_prediction = pd.concat(df_all_models, axis=0)\n        df_eval = df_eval.join(df_model_prediction)\n",
         new="        df_model_prediction = pd.concat(df_all_models, axis=0)\n        df_eval = df_eval.join(df_model_prediction)\n        if \"observed\" in df_eval.columns:\n            df_eval[\"predicted\"] = df_eval[\"predicted\"] * (df_eval[\"observed\"].mean() / df_eval[\"predicted\"].mean())\n"),
    dict(id="c05-hourly-observed-norm-as-feature", property="C05", kind="break", expect_rule="R05.2", file=H,
         old="        self._ts_feature_norm = [i + \"_norm\" for i in train_features]\n", new="        self._ts_feature_norm = [i + \"_norm\" for i in train_features] + [\"observed_norm\"]\n"),
    dict(id="c05-hourly-interaction-cols-unfiltered", property="C05", kind="break", expect_rule="R05.2", file=H,
         old="            cols = [\n                col\n                for col in df.columns\n                if col.startswith(interaction_col) and col[-1].isdigit()\n            ]\n            for col in cols:\n                # splits",
         new="            cols = [\n                col\n                for col in df.columns\n            ]\n            for col in cols:\n                # splits"),
    dict(id="c05-hourly-prediction-rescaled", property="C05", kind="break", expect_rule="R05.1", file=H,
         old="        y_predict = _transform_dst(y_predict, dst_indices)\n\n        df_eval[\"predicted\"] = y_predict",
         new="        y_predict = _transform_dst(y_predict, dst_indices)\n        level = df_eval[\"observed\"].mean()\n\n        df_eval[\"predicted\"] = y_predict + 0 * level"),
    dict(id="c05-hourly-clusters-from-usage-always", property="C05", kind="break", expect_rule="R05.1", file=H,
         old="            if not missing_combinations.empty:\n                if \"observed\" in df.columns and not df[\"observed\"].isnull().all():",
         new="            if True:\n                if \"observed\" in df.columns and not df[\"observed\"].isnull().all():"),
    dict(id="c05-caltrack-temperature-from-usage", property="C05", kind="break", expect_rule="R05.3", file=W,
         old="        temperature_series = reporting_data.df[\"temperature\"]\n", new="        temperature_series = reporting_data.df[\"temperature\"].where(reporting_data.df[\"observed\"].notna())\n"),
    dict(id="c05-caltrack-prediction-scaled-by-usage", property="C05", kind="break", expect_rule="R05.1", file=W,
         old="        df_res[\"predicted_uncertainty\"] = np.nan\n", new="        df_res[\"predicted\"] = df_res[\"predicted\"] * (df_res[\"observed\"].sum() > 0)\n        df_res[\"predicted_uncertainty\"] = np.nan\n"),
    dict(id="c05-benign-extra-passthrough", property="C05", kind="benign", file=H,
         old="        if \"observed\" in df.columns:\n            df[\"observed_norm\"] = self._y_scaler.transform(", new="        if \"observed\" in df.columns:\n            df[\"observed_copy\"] = df[\"observed\"]\n            df[\"observed_norm\"] = self._y_scaler.transform("),
    dict(id="c05-benign-row-filter-spelling", property="C05", kind="benign", file=D,
         old="            meter_data = meter_data[np.isfinite(meter_data[\"observed\"])]", new="            meter_data = meter_data[meter_data[\"observed\"].notna() & np.isfinite(meter_data[\"observed\"])]"),
]
