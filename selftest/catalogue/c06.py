H = "opendsm/eemeter/models/hourly/model.py"
D = "opendsm/eemeter/models/daily/model.py"
B = "opendsm/eemeter/models/billing/model.py"
HD = "opendsm/eemeter/models/hourly/data.py"
W = "opendsm/eemeter/models/hourly_caltrack/wrapper.py"
VARIANTS = [
    dict(id="c06-hourly-no-reindex", property="C06", kind="break", expect_rule="R06.1", file=H,
         old="        # reindex to original datetime index\n        df_eval = df_eval.reindex(datetime_original)\n\n        return df_eval", new="        return df_eval"),
    dict(id="c06-hourly-reindex-to-unique", property="C06", kind="break", expect_rule="R06.1", file=H,
         old="        datetime_original = eval_data.df.index\n", new="        datetime_original = eval_data.df.index.unique()\n"),
    dict(id="c06-hourly-drop-missing-predictions", property="C06", kind="break", expect_rule="R06.1", file=H,
         old="        df_eval = df_eval.reindex(datetime_original)\n\n        return df_eval", new="        df_eval = df_eval.reindex(datetime_original)\n\n        return df_eval.dropna(subset=[\"predicted\"])"),
    dict(id="c06-hourly-prepare-resets-index", property="C06", kind="break", expect_rule="R06.1", file=H,
         old="        # get feature matrices\n        X_predict, _ = self._get_feature_matrices(meter_data, dst_indices)", new="        meter_data = meter_data.reset_index(drop=True)\n        # get feature matrices\n        X_predict, _ = self._get_feature_matrices(meter_data, dst_indices)"),
    dict(id="c06-daily-not-sorted", property="C06", kind="break", expect_rule="R06.2", file=D, old="        return df_eval.sort_index()\n", new="        return df_eval\n"),
    dict(id="c06-daily-dedup-result", property="C06", kind="break", expect_rule="R06.2", file=D,
         old="        return df_eval.sort_index()\n", new="        return df_eval[~df_eval.index.duplicated()].sort_index()\n"),
    dict(id="c06-daily-inner-join", property="C06", kind="break", expect_rule="R06.2", file=D,
         old="df_eval = df_eval.join(df_model_prediction)", new="df_eval = df_eval.join(df_model_prediction, how=\"inner\")"),
    dict(id="c06-daily-prediction-index-reset", property="C06", kind="break", expect_rule="R06.2", file=D,
         old="                index=eval_segment.index,\n", new="                index=eval_segment.index.normalize(),\n"),
    dict(id="c06-daily-complement-by-position", property="C06", kind="break", expect_rule="R06.2", file=D,
         old="dropped_rows = dropped_rows.loc[~dropped_rows.index.isin(meter_data.index)]", new="dropped_rows = dropped_rows.iloc[len(meter_data):]"),
    dict(id="c06-billing-unaggregated-trimmed", property="C06", kind="break", expect_rule="R06.2", file=B,
         old="        df_res = self._predict(df)\n\n        if aggregation is None:", new="        df_res = self._predict(df)\n        df_res = df_res.dropna(subset=[\"predicted\"])\n\n        if aggregation is None:"),
    dict(id="c06-contiguous-ends-at-last-stamp", property="C06", kind="break", expect_rule="R06.3", file=HD,
         old="        latest_datetime = df.index.max().replace(\n            hour=23, minute=0, second=0, microsecond=0\n        )", new="        latest_datetime = df.index.max()"),
    dict(id="c06-contiguous-daily-freq", property="C06", kind="break", expect_rule="R06.3", file=HD,
         old="            start=earliest_datetime, end=latest_datetime, freq=\"h\"", new="            start=earliest_datetime, end=latest_datetime, freq=\"D\""),
    dict(id="c06-caltrack-inner-concat", property="C06", kind="break", expect_rule="R06.4", file=W,
         old="pd.concat([reporting_data.df, model_prediction.result], axis=1)", new="pd.concat([reporting_data.df, model_prediction.result], axis=1, join=\"inner\")"),
    dict(id="c06-benign-rename-local", property="C06", kind="benign", file=H, count=2, old="datetime_original", new="original_index"),
]
