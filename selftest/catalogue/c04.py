D = "opendsm/eemeter/models/daily/model.py"
B = "opendsm/eemeter/models/billing/model.py"
H = "opendsm/eemeter/models/hourly/model.py"
VARIANTS = [
    dict(id="c04-daily-fit-gate-deleted", property="C04", kind="break", expect_rule="R04.1", file=D,
         old='''        if baseline_data.disqualification and not ignore_disqualification:
            raise DataSufficiencyError("Can't fit model on disqualified baseline data")
        self.baseline_timezone''',
         new='''        self.baseline_timezone'''),
    dict(id="c04-daily-fit-gate-or", property="C04", kind="break", expect_rule="R04.1", file=D,
         old="if baseline_data.disqualification and not ignore_disqualification:",
         new="if baseline_data.disqualification or not ignore_disqualification:"),
    dict(id="c04-daily-fit-gate-after-work", property="C04", kind="break", expect_rule="R04.1", file=D,
         old='''        if baseline_data.disqualification and not ignore_disqualification:
            raise DataSufficiencyError("Can't fit model on disqualified baseline data")
        self.baseline_timezone = baseline_data.tz
        self.warnings = list(baseline_data.warnings)
        self.disqualification = list(baseline_data.disqualification)
        df = getattr(baseline_data, self._data_df_name)
        self._fit(df)
''',
         new='''        self.baseline_timezone = baseline_data.tz
        self.warnings = list(baseline_data.warnings)
        self.disqualification = list(baseline_data.disqualification)
        df = getattr(baseline_data, self._data_df_name)
        self._fit(df)
        if baseline_data.disqualification and not ignore_disqualification:
            raise DataSufficiencyError("Can't fit model on disqualified baseline data")
'''),
    dict(id="c04-daily-fit-flag-default-true", property="C04", kind="break", expect_rule="R04.1", file=D,
         old='''        baseline_data: DailyBaselineData, 
        ignore_disqualification: bool = False''',
         new='''        baseline_data: DailyBaselineData, 
        ignore_disqualification: bool = True'''),
    dict(id="c04-billing-fit-flag-not-forwarded", property="C04", kind="break", expect_rule="R04.1", file=B,
         old="return super().fit(baseline_data, ignore_disqualification=ignore_disqualification)",
         new="return super().fit(baseline_data, ignore_disqualification=True)"),
    dict(id="c04-hourly-fit-gate-wrong-class", property="C04", kind="break", expect_rule="R04.1", file=H,
         old='''            raise DataSufficiencyError("Can't fit model on disqualified baseline data")''',
         new='''            raise ValueError("Can't fit model on disqualified baseline data")'''),
    dict(id="c04-hourly-fit-gate-in-try", property="C04", kind="break", expect_rule="R04.4", file=H,
         old='''        if baseline_data.disqualification and not ignore_disqualification:
            raise DataSufficiencyError("Can't fit model on disqualified baseline data")
        if "ghi" in self._ts_features''',
         new='''        try:
            if baseline_data.disqualification and not ignore_disqualification:
                raise DataSufficiencyError("Can't fit model on disqualified baseline data")
        except Exception:
            pass
        if "ghi" in self._ts_features'''),
    dict(id="c04-hourly-predict-gate-ignores-flag", property="C04", kind="break", expect_rule="R04.2", file=H,
         old='''        if self.disqualification and not ignore_disqualification:
            raise DisqualifiedModelError(''',
         new='''        if self.disqualification:
            raise DisqualifiedModelError('''),
    dict(id="c04-billing-predict-gate-nested-under-aggregation", property="C04", kind="break", expect_rule="R04.2", file=B,
         old='''        if self.disqualification and not ignore_disqualification:
            raise DisqualifiedModelError(
                "Attempting to predict using disqualified model without setting ignore_disqualification=True"
            )
''',
         new='''        if aggregation is not None:
            if self.disqualification and not ignore_disqualification:
                raise DisqualifiedModelError(
                    "Attempting to predict using disqualified model without setting ignore_disqualification=True"
                )
'''),
    dict(id="c04-daily-predict-unfitted-guard-dropped", property="C04", kind="break", expect_rule="R04.3", file=D,
         old='''        if not self.is_fitted:
            raise RuntimeError("Model must be fit before predictions can be made.")

        if self.disqualification and not ignore_disqualification:
            raise DisqualifiedModelError(
                "Attempting to predict using disqualified model without setting ignore_disqualification=True"
            )

        if str(self.baseline_timezone)''',
         new='''        if self.disqualification and not ignore_disqualification:
            raise DisqualifiedModelError(
                "Attempting to predict using disqualified model without setting ignore_disqualification=True"
            )

        if str(self.baseline_timezone)'''),
    dict(id="c04-hourly-predict-tz-guard-eq", property="C04", kind="break", expect_rule="R04.3", file=H,
         old="        if str(self.baseline_timezone) != str(reporting_data.tz):\n            raise ValueError(\n                \"Reporting data must use the same timezone that the model was initially fit on.\"\n            )\n\n        if self.disqualification and",
         new="        if str(self.baseline_timezone) == str(reporting_data.tz):\n            raise ValueError(\n                \"Reporting data must use the same timezone that the model was initially fit on.\"\n            )\n\n        if self.disqualification and"),
    dict(id="c04-hourly-predict-accepts-frames", property="C04", kind="break", expect_rule="R04.3", file=H,
         old="if not isinstance(reporting_data, (HourlyBaselineData, HourlyReportingData)):",
         new="if not isinstance(reporting_data, (HourlyBaselineData, HourlyReportingData, pd.DataFrame)):"),
    dict(id="c04-raise-elsewhere", property="C04", kind="break", expect_rule="R04.4", file=H,
         old='''        df_eval = eval_data.df  # used to have a copy here
        dst_indices = _get_dst_indices(df_eval)''',
         new='''        df_eval = eval_data.df  # used to have a copy here
        if len(df_eval) == 0:
            raise DisqualifiedModelError("empty")
        dst_indices = _get_dst_indices(df_eval)'''),
    dict(id="c04-hourly-poor-fit-bypass", property="C04", kind="break", expect_rule="R04.5", file=H,
         old='''        if self.settings.elasticnet.adaptive_weights:
            self._adaptive_fit(baseline_data)
        else:
            self._fit(baseline_data)
''',
         new='''        if self.settings.elasticnet.adaptive_weights:
            self._adaptive_fit(baseline_data)
            return self
        else:
            self._fit(baseline_data)
'''),
    dict(id="c04-hourly-dq-not-serialised", property="C04", kind="break", expect_rule="R04.6", file=H,
         old="                disqualification=self.disqualification,\n                warnings=self.warnings,",
         new="                disqualification=[],\n                warnings=self.warnings,"),
    dict(id="c04-hourly-dq-not-restored", property="C04", kind="break", expect_rule="R04.6", file=H,
         old="        model_cls.disqualification = info.disqualification\n",
         new="        model_cls.disqualification = []\n"),
    # ---- benign
    dict(id="c04-benign-split-if", property="C04", kind="benign", file=D,
         old='''        if baseline_data.disqualification and not ignore_disqualification:
            raise DataSufficiencyError("Can't fit model on disqualified baseline data")
        self.baseline_timezone''',
         new='''        if baseline_data.disqualification:
            if not ignore_disqualification:
                raise DataSufficiencyError("Can't fit model on disqualified baseline data")
        self.baseline_timezone'''),
    dict(id="c04-benign-demorgan-len", property="C04", kind="benign", file=H,
         old='''        if self.disqualification and not ignore_disqualification:
            raise DisqualifiedModelError(''',
         new='''        if not (len(self.disqualification) == 0 or ignore_disqualification):
            raise DisqualifiedModelError('''),
    dict(id="c04-benign-reorder-guards", property="C04", kind="benign", file=D,
         old='''        if not isinstance(reporting_data, (self._baseline_data_type, self._reporting_data_type)):
            raise TypeError(
                f"reporting_data must be a {self._baseline_data_type.__name__} or {self._reporting_data_type.__name__} object"
            )

        df = getattr(reporting_data, self._data_df_name)''',
         new='''        df = getattr(reporting_data, self._data_df_name)'''
         ,),
]
# the reorder variant above deletes the isinstance guard: that is a *break*; fix its kind here to keep the list honest
VARIANTS[-1]["kind"] = "break"
VARIANTS[-1]["id"] = "c04-daily-predict-type-guard-dropped"
VARIANTS[-1]["expect_rule"] = "R04.3"
VARIANTS += [
    dict(id="c04-regress-stale-snapshot", property="C04", kind="break", expect_rule="R04.6", expect_key="snapshot-before-append", file=D,
         old="            # params were created in _fit, before this disqualification existed\n            self.params = self._create_params_from_fit_model()\n", new=""),
    dict(id="c04-regress-billing-tz-guard", property="C04", kind="break", expect_rule="R04.3", expect_key="tz-open", file=B,
         old='''        if str(self.baseline_timezone) != str(reporting_data.tz):
            raise ValueError(
                "Reporting data must use the same timezone that the model was initially fit on."
            )
''', new=""),
    dict(id="c04-regress-weighted-tz-guard", property="C04", kind="break", expect_rule="R04.3", expect_key="tz-open", file="opendsm/eemeter/models/billing/weighted_model.py",
         old='''        if str(self.baseline_timezone) != str(reporting_data.tz):
            raise ValueError(
                "Reporting data must use the same timezone that the model was initially fit on."
            )
''', new=""),
    dict(id="c04-benign-live-serialisation", property="C04", kind="benign", file=D,
         old="        return self.params.model_dump()\n",
         new="        d = self.params.model_dump()\n        d[\"info\"][\"disqualification\"] = [dq.json() for dq in self.disqualification]\n        return d\n"),
]
VARIANTS.append(
    dict(id="c04-benign-reorder-guards", property="C04", kind="benign", file=D,
         old='''        if not self.is_fitted:
            raise RuntimeError("Model must be fit before predictions can be made.")

        if self.disqualification and not ignore_disqualification:
            raise DisqualifiedModelError(
                "Attempting to predict using disqualified model without setting ignore_disqualification=True"
            )
''',
         new='''        if self.disqualification and not ignore_disqualification:
            raise DisqualifiedModelError(
                "Attempting to predict using disqualified model without setting ignore_disqualification=True"
            )

        if not self.is_fitted:
            raise RuntimeError("Model must be fit before predictions can be made.")
'''))
