U = "opendsm/eemeter/common/data_processor_utilities.py"
BD = "opendsm/eemeter/models/billing/data.py"
DD = "opendsm/eemeter/models/daily/data.py"
F = "opendsm/eemeter/common/features.py"
RESCALE = "                temperature_features.loc[temperature_features.coverage > 0.5, \"value\"] = (\n                    temperature_features[temperature_features.coverage > 0.5].value\n                    / temperature_features[temperature_features.coverage > 0.5].coverage\n                )\n"
MARK = "                # Set missing high frequency data to NaN\n                # (the value is already the mean of the readings present; only sums are rescaled by coverage)\n"
VARIANTS = [
    dict(id="c09-regress-daily-mean-rescaled", property="C09", kind="break", expect_rule="R09.1", file=DD, old=MARK, new=RESCALE),
    dict(id="c09-regress-billing-mean-rescaled", property="C09", kind="break", expect_rule="R09.1", file=BD, old=MARK, new=RESCALE),
    dict(id="c09-temperature-summed", property="C09", kind="break", expect_rule="R09.1", file=DD,
         old="                    temp_series, \"D\", series_type=\"instantaneous\", include_coverage=True", new="                    temp_series, \"D\", series_type=\"cumulative\", include_coverage=True"),
    dict(id="c09-instantaneous-branch-sums", property="C09", kind="break", expect_rule="R09.1", file=U,
         old="        resampled = atomic_series.resample(freq, origin=series.index[0]).mean()\n        n_coverage", new="        resampled = atomic_series.resample(freq, origin=series.index[0]).sum()\n        n_coverage"),
    dict(id="c09-half-covered-day-kept", property="C09", kind="break", expect_rule="R09.3", file=DD,
         old="                    temperature_features[temperature_features.coverage > 0.5]\n                    .reindex", new="                    temperature_features[temperature_features.coverage >= 0.5]\n                    .reindex"),
    dict(id="c09-hourly-route-threshold", property="C09", kind="break", expect_rule="R09.3", file=DD,
         old="                ) <= 0.5\n\n                # Set high frequency temperature data with more than 50% data missing as NaN", new="                ) < 0.5\n\n                # Set high frequency temperature data with more than 50% data missing as NaN"),
    dict(id="c09-hourly-route-fraction-of-null", property="C09", kind="break", expect_rule="R09.3", file=BD,
         old="                invalid_temperature_rows = (\n                    temperature_features.temperature_not_null\n                    / (", new="                invalid_temperature_rows = (\n                    temperature_features.temperature_null\n                    / ("),
    dict(id="c09-count-renames-swapped", property="C09", kind="break", expect_rule="R09.3", file=F,
         old="                    (\"temp\", \"not_null\"): \"temperature_not_null\",\n                    (\"temp\", \"null\"): \"temperature_null\",", new="                    (\"temp\", \"not_null\"): \"temperature_null\",\n                    (\"temp\", \"null\"): \"temperature_not_null\","),
    dict(id="c09-day-temperature-median", property="C09", kind="break", expect_rule="R09.3", file=F,
         old="            temp_agg_funcs.extend([(\"mean\", \"mean\")])", new="            temp_agg_funcs.extend([(\"mean\", \"median\")])"),
    dict(id="c09-null-count-uses-count", property="C09", kind="break", expect_rule="R09.3", file=F,
         old="                [(\"not_null\", \"count\"), (\"null\", lambda x: x.isnull().sum())]", new="                [(\"not_null\", \"count\"), (\"null\", \"count\")]"),
    dict(id="c09-siblings-diverge", property="C09", kind="break", expect_rule="R09.3", file=BD,
         old="                if len(temperature_features[temperature_features.coverage <= 0.5]) > 0:", new="                if len(temperature_features[temperature_features.coverage <= 0.4]) > 0:"),
    dict(id="c09-repair-counts-resampled", property="C09", kind="repair", expect_gone="R09.2", file=DD,
         old="            temperature_features[\"temperature_null\"] = temp_series.isnull().astype(int)\n            temperature_features[\"temperature_not_null\"] = temp_series.notnull().astype(\n                int\n            )",
         new="            temperature_features[\"temperature_null\"] = temp_series.isnull().astype(int).resample(\"D\").sum()\n            temperature_features[\"temperature_not_null\"] = temp_series.notnull().astype(int).resample(\"D\").sum()"),
    dict(id="c09-daily-mask-widened-by-median-rule", property="C09", kind="break", expect_rule="R09.3", file=DD,
         old="                ) <= 0.5\n\n                # Set high frequency temperature data with more than 50% data missing as NaN",
         new="                ) <= 0.5\n                invalid_temperature_rows |= temperature_features.temperature_not_null <= 12\n\n                # Set high frequency temperature data with more than 50% data missing as NaN"),
    dict(id="c09-daily-blank-selector-widened", property="C09", kind="break", expect_rule="R09.3", file=DD,
         old="                    temperature_features.loc[\n                        invalid_temperature_rows, \"temperature_mean\"\n                    ] = np.nan",
         new="                    temperature_features.loc[\n                        invalid_temperature_rows | (temperature_features.temperature_null > 0), \"temperature_mean\"\n                    ] = np.nan"),
    dict(id="c09-repair-billing-median-rule-removed", property="C09", kind="repair", expect_gone="R09.3", file=BD,
         old="                invalid_temperature_rows |= (\n                    temperature_features.temperature_not_null <= median_samples * 0.5\n                )\n", new=""),
    dict(id="c09-benign-comment", property="C09", kind="benign", file=DD, old="            temperature_features[\"n_days_kept\"] = 0  # unused", new="            temperature_features[\"n_days_kept\"] = 0  # not used downstream"),
]
