B = "opendsm/eemeter/models/billing/model.py"
W = "opendsm/eemeter/models/billing/weighted_model.py"
VARIANTS = [
    dict(id="c19-heating-mean", property="C19", kind="break", expect_rule="R19.1", file=B,
         old='heating_load = df_res["heating_load"].resample(agg).sum()', new='heating_load = df_res["heating_load"].resample(agg).mean()'),
    dict(id="c19-temperature-sum", property="C19", kind="break", expect_rule="R19.1", file=B,
         old='temperature = df_res["temperature"].resample(agg).mean()', new='temperature = df_res["temperature"].resample(agg).sum()'),
    dict(id="c19-unc-plain-sum", property="C19", kind="break", expect_rule="R19.1", file=B,
         old="sum_quad = lambda x: np.sqrt(np.sum(np.square(x)))", new="sum_quad = lambda x: np.sum(np.sqrt(np.square(x)))"),
    dict(id="c19-unc-rms", property="C19", kind="break", expect_rule="R19.1", file=W,
         old="sum_quad = lambda x: np.sqrt(np.sum(np.square(x)))", new="sum_quad = lambda x: np.sqrt(np.mean(np.square(x)))"),
    dict(id="c19-bimonthly-3ms", property="C19", kind="break", expect_rule="R19.2", file=B, old='agg = "2MS"', new='agg = "3MS"'),
    dict(id="c19-monthly-me", property="C19", kind="break", expect_rule="R19.2", file=W, old='agg = "MS"', new='agg = "M"'),
    dict(id="c19-else-falls-through", property="C19", kind="break", expect_rule="R19.2", file=B,
         old='''        else:
            raise ValueError(
                "aggregation must be one of [None, 'monthly', 'bimonthly']"
            )
''', new='''        else:
            agg = None
'''),
    dict(id="c19-else-defaults-monthly", property="C19", kind="break", expect_rule="R19.2", file=B,
         old='''        else:
            raise ValueError(
                "aggregation must be one of [None, 'monthly', 'bimonthly']"
            )
''', new='''        else:
            agg = "MS"
'''),
    dict(id="c19-predicted-fixed-freq", property="C19", kind="break", expect_rule="R19.1", file=B,
         old='predicted = df_res["predicted"].resample(agg).sum()', new='predicted = df_res["predicted"].resample("MS").sum()'),
    dict(id="c19-cooling-not-concatenated", property="C19", kind="break", expect_rule="R19.1", file=B,
         old="                    heating_load,\n                    cooling_load,\n", new="                    heating_load,\n"),
    dict(id="c19-concat-axis0", property="C19", kind="break", expect_rule="R19.1", file=W,
         old="                ],\n                axis=1,\n            )", new="                ],\n                axis=0,\n            )"),
    dict(id="c19-sibling-diverges", property="C19", kind="break", expect_rule="R19.1", file=W,
         old='cooling_load = df_res["cooling_load"].resample(agg).sum()', new='cooling_load = df_res["cooling_load"].resample(agg).max()'),
    dict(id="c19-regress-observed-unguarded", property="C19", kind="break", expect_rule="R19.4", file=B,
         old='''            observed = None  # temperature-only reporting data has no observed column
            if "observed" in df_res.columns:
                observed = df_res["observed"].resample(agg).sum()
''', new='''            observed = df_res["observed"].resample(agg).sum()
'''),
    dict(id="c19-aggregates-input-frame", property="C19", kind="break", expect_rule="R19.1", file=B,
         old='observed = df_res["observed"].resample(agg).sum()', new='observed = df["observed"].resample(agg).sum()'),
    dict(id="c19-unc-linalg-norm-propagates-nan", property="C19", kind="break", expect_rule="R19.1", file=B,
         old="sum_quad = lambda x: np.sqrt(np.sum(np.square(x)))", new="sum_quad = np.linalg.norm"),
    dict(id="c19-periods-cut-in-utc", property="C19", kind="break", expect_rule=("R19.2", "R19.3"), file=B,
         old='            season = df_res["season"].resample(agg).first()\n', new='            tz = df_res.index.tz\n            df_res = df_res.tz_convert(None)\n            season = df_res["season"].resample(agg).first()\n'),
    dict(id="c19-period-labels-shifted", property="C19", kind="break", expect_rule="R19.2", file=B,
         old='                axis=1,\n            )\n\n        return df_res', new='                axis=1,\n            ).shift(1, freq="D")\n\n        return df_res'),
    dict(id="c19-benign-rss-spelling", property="C19", kind="benign", file=B,
         old="sum_quad = lambda x: np.sqrt(np.sum(np.square(x)))", new="sum_quad = lambda v: (v ** 2).sum() ** 0.5"),
    dict(id="c19-benign-agg-string", property="C19", kind="benign", file=B,
         old='predicted = df_res["predicted"].resample(agg).sum()', new='predicted = df_res["predicted"].resample(agg).agg("sum")'),
    dict(id="c19-benign-case-insensitive", property="C19", kind="benign", file=B,
         old='elif aggregation == "monthly":', new='elif aggregation.lower() == "monthly":'),
]
