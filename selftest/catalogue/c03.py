H = "opendsm/eemeter/models/hourly/model.py"
HS = "opendsm/eemeter/models/hourly/settings.py"
S = "opendsm/eemeter/models/hourly_caltrack/segmentation.py"
D = "opendsm/eemeter/models/daily/model.py"
DS = "opendsm/eemeter/models/daily/utilities/settings.py"
O = "opendsm/eemeter/models/daily/optimize.py"
BK = "opendsm/common/clustering/bisect_k_means.py"
SC = "opendsm/common/clustering/scoring.py"
CM = "opendsm/eemeter/models/hourly_caltrack/model.py"
VARIANTS = [
    dict(id="c03-elasticnet-unseeded", property="C03", kind="break", expect_rule="R03.1a", file=H,
         old="            random_state=self.settings.elasticnet._seed,\n", new=""),
    dict(id="c03-kmeans-random-state-none", property="C03", kind="break", expect_rule="R03.1a", file=H,
         old="random_state=seed + i,  # can be set to None or seed_num", new="random_state=None,"),
    dict(id="c03-global-rng-shuffle", property="C03", kind="break", expect_rule="R03.1a", file=H,
         old="    results = []\n    for i in range(recluster_count):", new="    data = data[np.random.permutation(len(data))]\n    results = []\n    for i in range(recluster_count):"),
    dict(id="c03-seed-always-random", property="C03", kind="break", expect_rule="R03.1a", file=HS,
         old="        if self.seed is None:\n            self._seed = np.random.randint(0, 2**32 - 1, dtype=np.int64)\n        else:\n            self._seed = self.seed",
         new="        self._seed = np.random.randint(0, 2**32 - 1, dtype=np.int64)"),
    dict(id="c03-seed-not-propagated", property="C03", kind="break", expect_rule="R03.1a", file=HS,
         old="        self.temporal_cluster._seed = self._seed\n", new=""),
    dict(id="c03-default-algorithm-stochastic", property="C03", kind="break", expect_rule="R03.1a", file=DS,
         old="        default=AlgorithmChoice.NLOPT_DIRECT,\n        developer=True,", new="        default=AlgorithmChoice.NLOPT_DIRECT_L_RAND,\n        developer=True,"),
    dict(id="c03-silhouette-subsamples", property="C03", kind="break", expect_rule="R03.1a", file=SC,
         old="sample_size=10_000,", new="sample_size=50,"),
    dict(id="c03-pca-randomized", property="C03", kind="break", expect_rule="R03.1a", file=H,
         old="            pca = PCA(n_components=min_var_ratio)", new="            pca = PCA(n_components=min_var_ratio, svd_solver=\"randomized\")"),
    dict(id="c03-clock-into-error-dict", property="C03", kind="break", expect_rule="R03.1b", file=H,
         old="        # fit the model\n        self._model.fit(X_fit, y_fit)\n        self.is_fitted = True\n", new="        # fit the model\n        self._model.fit(X_fit, y_fit)\n        self.error[\"fitted_at\"] = timer()\n        self.is_fitted = True\n"),
    dict(id="c03-regress-set-order", property="C03", kind="break", expect_rule="R03.1c", file=S,
         old="        cols_to_predict = sorted(\n            set(parameters.keys()).intersection(set(design_matrix_granular.keys()))\n        )",
         new="        cols_to_predict = list(\n            set(parameters.keys()).intersection(set(design_matrix_granular.keys()))\n        )"),
    dict(id="c03-components-unsorted", property="C03", kind="break", expect_rule="R03.1c", file=D,
         old="        components = sorted(components, key=lambda x: (len(x), x))\n\n        return components", new="        return components"),
    dict(id="c03-iterate-set-of-features", property="C03", kind="break", expect_rule="R03.1c", file=H,
         old="        agg_dict = {f: lambda x: list(x) for f in self._ts_feature_norm}", new="        agg_dict = {f: lambda x: list(x) for f in list(set(self._ts_feature_norm))}"),
    dict(id="c03-mutable-default-mutated", property="C03", kind="break", expect_rule="R03.1d", file=CM,
         old="        self.warnings = warnings\n\n        if metadata is None:", new="        warnings.append(None)\n        self.warnings = warnings\n\n        if metadata is None:"),
    dict(id="c03-thread-pin-removed", property="C03", kind="break", expect_rule="R03.2", file=BK,
         old="        self._n_threads = 1  # OVERRIDE OF ABOVE SO THAT RESULTS ARE DETERMINISTIC", new="        self._n_threads = _openmp_effective_n_threads()"),
    dict(id="c03-env-pin-after-imports", property="C03", kind="break", expect_rule="R03.2", file=H,
         old="os.environ[\"OMP_NUM_THREADS\"] = \"1\"\nos.environ[\"MKL_NUM_THREADS\"] = \"1\"\nos.environ[\"OPENBLAS_NUM_THREADS\"] = \"1\"\n\nfrom pydantic import BaseModel, ConfigDict\n\nimport numpy as np\nimport pandas as pd\n",
         new="from pydantic import BaseModel, ConfigDict\n\nimport numpy as np\nimport pandas as pd\n\nos.environ[\"OMP_NUM_THREADS\"] = \"1\"\nos.environ[\"MKL_NUM_THREADS\"] = \"1\"\nos.environ[\"OPENBLAS_NUM_THREADS\"] = \"1\"\n"),
    dict(id="c03-optimizer-shares-x0", property="C03", kind="break", expect_rule="R03.3", file=O,
         old="        self.coef_id = coef_id\n        self.x0 = np.array(x0)", new="        self.coef_id = coef_id\n        self.x0 = x0"),
    dict(id="c03-elasticnet-warm-start", property="C03", kind="break", expect_rule="R03.1e", file=H,
         old="            random_state=self.settings.elasticnet._seed,\n        )", new="            random_state=self.settings.elasticnet._seed,\n            warm_start=self.settings.elasticnet.adaptive_weights,\n        )"),
    dict(id="c03-benign-warm-start-false", property="C03", kind="benign", file=H,
         old="            random_state=self.settings.elasticnet._seed,\n        )", new="            random_state=self.settings.elasticnet._seed,\n            warm_start=False,\n        )"),
    dict(id="c03-benign-sorted-comprehension", property="C03", kind="benign", file=H,
         old="        missing_hour = set(range(24)) - set(month.index.hour)", new="        missing_hour = set(range(24)).difference(month.index.hour)"),
    dict(id="c03-benign-seed-plus-constant", property="C03", kind="benign", file=H,
         old="random_state=seed + i,  # can be set to None or seed_num", new="random_state=seed + 7 * i,"),
    {'id': 'c03-classstate-vocab-item-store', 'property': 'C03', 'kind': 'break', 'expect_rule': 'R03.1d', 'expect_key': 'shared-class-state:combo_dictionary', 'edits': [{'file': 'opendsm/eemeter/models/daily/model.py', 'old': '    _data_df_name = "df"\n\n    def __init__(\n        self,\n        model: str = "current",', 'new': '    _data_df_name = "df"\n    combo_dictionary = {"su": "summer", "sh": "shoulder", "wi": "winter", "fw": [1, 2, 3, 4, 5, 6, 7]}\n\n    def __init__(\n        self,\n        model: str = "current",'}, {'file': 'opendsm/eemeter/models/daily/model.py', 'old': '        self.combo_dictionary = {\n            "su": "summer",\n            "sh": "shoulder",\n            "wi": "winter",\n            "fw": [n + 1 for n in n_week],\n            "wd": [n + 1 for n in n_week if day_dict[n+1] == "weekday"],\n            "we": [n + 1 for n in n_week if day_dict[n+1] == "weekend"],\n        }\n', 'new': '        self.combo_dictionary["wd"] = [n + 1 for n in n_week if day_dict[n+1] == "weekday"]\n        self.combo_dictionary["we"] = [n + 1 for n in n_week if day_dict[n+1] == "weekend"]\n'}]},
    {'id': 'c03-classstate-vocab-alias-update', 'property': 'C03', 'kind': 'break', 'expect_rule': 'R03.1d', 'expect_key': 'shared-class-state:combo_dictionary', 'edits': [{'file': 'opendsm/eemeter/models/daily/model.py', 'old': '    _data_df_name = "df"\n\n    def __init__(\n        self,\n        model: str = "current",', 'new': '    _data_df_name = "df"\n    _COMBO = {"su": "summer", "sh": "shoulder", "wi": "winter"}\n\n    def __init__(\n        self,\n        model: str = "current",'}, {'file': 'opendsm/eemeter/models/daily/model.py', 'old': '        self.combo_dictionary = {\n            "su": "summer",\n            "sh": "shoulder",\n            "wi": "winter",\n            "fw": [n + 1 for n in n_week],\n            "wd": [n + 1 for n in n_week if day_dict[n+1] == "weekday"],\n            "we": [n + 1 for n in n_week if day_dict[n+1] == "weekend"],\n        }\n', 'new': '        self.combo_dictionary = self._COMBO\n        self.combo_dictionary.update({"fw": [n + 1 for n in n_week], "wd": [n + 1 for n in n_week if day_dict[n+1] == "weekday"], "we": [n + 1 for n in n_week if day_dict[n+1] == "weekend"]})\n'}]},
    {'id': 'c03-benign-classstate-vocab-copied', 'property': 'C03', 'kind': 'benign', 'edits': [{'file': 'opendsm/eemeter/models/daily/model.py', 'old': '    _data_df_name = "df"\n\n    def __init__(\n        self,\n        model: str = "current",', 'new': '    _data_df_name = "df"\n    _COMBO = {"su": "summer", "sh": "shoulder", "wi": "winter"}\n    _DAY_OPTIONS = [["wd", "we"]]\n\n    def __init__(\n        self,\n        model: str = "current",'}, {'file': 'opendsm/eemeter/models/daily/model.py', 'old': '        self.day_options = [["wd", "we"]]\n', 'new': '        self.day_options = self._DAY_OPTIONS\n'}, {'file': 'opendsm/eemeter/models/daily/model.py', 'old': '        self.combo_dictionary = {\n            "su": "summer",\n            "sh": "shoulder",\n            "wi": "winter",\n            "fw": [n + 1 for n in n_week],\n            "wd": [n + 1 for n in n_week if day_dict[n+1] == "weekday"],\n            "we": [n + 1 for n in n_week if day_dict[n+1] == "weekend"],\n        }\n', 'new': '        self.combo_dictionary = dict(self._COMBO)\n        self.combo_dictionary.update({"fw": [n + 1 for n in n_week], "wd": [n + 1 for n in n_week if day_dict[n+1] == "weekday"], "we": [n + 1 for n in n_week if day_dict[n+1] == "weekend"]})\n'}]},
    {'id': 'c03-kernel-compiled-parallel', 'property': 'C03', 'kind': 'break', 'expect_rule': 'R03.2', 'expect_key': 'sequential-kernel', 'file': 'opendsm/eemeter/models/daily/base_models/full_model.py', 'old': '@numba.jit(nopython=True, error_model="numpy", cache=True)\ndef full_model(', 'new': '@numba.jit(nopython=True, error_model="numpy", cache=True, parallel=True)\ndef full_model('},
    {'id': 'c03-benign-kernel-parallel-false', 'property': 'C03', 'kind': 'benign', 'file': 'opendsm/eemeter/models/daily/base_models/full_model.py', 'old': '@numba.jit(nopython=True, error_model="numpy", cache=True)\ndef full_model(', 'new': '@numba.jit(nopython=True, error_model="numpy", cache=True, parallel=False)\ndef full_model('},
]
