S = "opendsm/eemeter/common/sufficiency_criteria.py"
DD = "opendsm/eemeter/models/daily/data.py"
BD = "opendsm/eemeter/models/billing/data.py"
HD = "opendsm/eemeter/models/hourly/data.py"
VARIANTS = [
    dict(id="c10-valid-days-le", property="C10", kind="break", expect_rule="R10.2", file=S,
         old="if fraction_valid_days < self.min_fraction_daily_coverage:", new="if fraction_valid_days <= self.min_fraction_daily_coverage:"),
    dict(id="c10-threshold-default-085", property="C10", kind="break", expect_rule="R10.2", file=S,
         old="    min_fraction_daily_coverage: float = 0.9", new="    min_fraction_daily_coverage: float = 0.85"),
    dict(id="c10-span-max-366", property="C10", kind="break", expect_rule="R10.2", file=S, old="MAX_BASELINE_LENGTH = 365", new="MAX_BASELINE_LENGTH = 366"),
    dict(id="c10-span-min-floor", property="C10", kind="break", expect_rule="R10.2", file=S,
         old="MIN_BASELINE_LENGTH = ceil(0.9 * MAX_BASELINE_LENGTH)", new="MIN_BASELINE_LENGTH = int(0.9 * MAX_BASELINE_LENGTH)"),
    dict(id="c10-span-and", property="C10", kind="break", expect_rule="R10.2", file=S,
         old="            and self.n_days_total > MAX_BASELINE_LENGTH\n            or self.n_days_total < MIN_BASELINE_LENGTH",
         new="            and self.n_days_total > MAX_BASELINE_LENGTH\n            and self.n_days_total < MIN_BASELINE_LENGTH"),
    dict(id="c10-negative-allowed-for-gas", property="C10", kind="break", expect_rule="R10.2", file=S,
         old="if not self.is_reporting_data and not self.is_electricity_data:\n            n_negative", new="if not self.is_reporting_data and self.is_electricity_data:\n            n_negative"),
    dict(id="c10-negative-le-zero", property="C10", kind="break", expect_rule="R10.2", file=S,
         old="self.data.observed[self.data.observed < 0].shape[", new="self.data.observed[self.data.observed <= 0].shape["),
    dict(id="c10-monthly-temp-uses-observed", property="C10", kind="break", expect_rule="R10.2", file=S,
         old='''            self.data["temperature"]
            .groupby(self.data.index.month)''', new='''            self.data["observed"]
            .groupby(self.data.index.month)'''),
    dict(id="c10-monthly-ghi-le", property="C10", kind="break", expect_rule="R10.2", file=S,
         old="if (non_null_temp_ghi_per_month < self.min_fraction_daily_coverage).any():", new="if (non_null_temp_ghi_per_month < self.min_fraction_daily_coverage).all():"),
    dict(id="c10-meter-fraction-wrong-numerator", property="C10", kind="break", expect_rule="R10.2", file=S,
         old="fraction_valid_meter_value_days = self.n_valid_meter_value_days / float(", new="fraction_valid_meter_value_days = self.n_valid_days / float("),
    dict(id="c10-billing-drops-monthly-temperature", property="C10", kind="break", expect_rule="R10.1", file=S,
         old='''        self._check_valid_temperature_values_percentage()
        self._check_monthly_temperature_values_percentage()
        self._check_extreme_values()
        self._check_estimated_meter_values()''', new='''        self._check_valid_temperature_values_percentage()
        self._check_extreme_values()
        self._check_estimated_meter_values()'''),
    dict(id="c10-daily-reporting-checks-meter", property="C10", kind="break", expect_rule="R10.1", file=S,
         old='''    def check_sufficiency_reporting(self):
        self._check_no_data()
        self._check_valid_days_percentage()
        self._check_valid_temperature_values_percentage()
        self._check_monthly_temperature_values_percentage()
        # self._check_high_frequency_temperature_values()


class BillingSufficiencyCriteria''', new='''    def check_sufficiency_reporting(self):
        self._check_no_data()
        self._check_baseline_length_daily_billing_model()
        self._check_valid_days_percentage()
        self._check_valid_temperature_values_percentage()
        self._check_monthly_temperature_values_percentage()
        # self._check_high_frequency_temperature_values()


class BillingSufficiencyCriteria'''),
    dict(id="c10-hourly-conditional-criterion", property="C10", kind="break", expect_rule="R10.1", file=S,
         old='''        self._check_monthly_temperature_values_percentage()
        self._check_monthly_meter_readings_percentage()
        self._check_extreme_values()''', new='''        self._check_monthly_temperature_values_percentage()
        if self.is_electricity_data:
            self._check_monthly_meter_readings_percentage()
        self._check_extreme_values()'''),
    dict(id="c10-daily-baseline-uses-reporting-mode", property="C10", kind="break", expect_rule="R10.1", file=DD,
         old="        dsc.check_sufficiency_baseline()", new="        dsc.check_sufficiency_reporting()"),
    dict(id="c10-extreme-values-disqualify", property="C10", kind="break", expect_rule="R10.3", file=S,
         old='''                # CalTRACK 2.3.6
                self.warnings.append(''', new='''                # CalTRACK 2.3.6
                self.disqualification.append('''),
    dict(id="c10-no-data-to-warnings", property="C10", kind="break", expect_rule="R10.3", file=S,
         old='''        if self.data.dropna().empty:
            self.disqualification.append(''', new='''        if self.data.dropna().empty:
            self.warnings.append('''),
    dict(id="c10-daily-highfreq-meter-sink-dq", property="C10", kind="break", expect_rule="R10.3", file=DD,
         old="            meter_series, min_granularity, self.warnings\n", new="            meter_series, min_granularity, self.disqualification\n"),
    dict(id="c10-utc-index-disqualifies", property="C10", kind="break", expect_rule="R10.3", file=HD,
         old='''        elif str(df.index.tz) == "UTC":
            self.warnings.append(''', new='''        elif str(df.index.tz) == "UTC":
            self.disqualification.append('''),
    dict(id="c10-tuple-swapped", property="C10", kind="break", expect_rule="R10.4", file=BD, count=2,
         old="        return disqualification, warnings\n", new="        return warnings, disqualification\n"),
    dict(id="c10-unpack-swapped", property="C10", kind="break", expect_rule="R10.4", file=HD,
         old="        disqualification, warnings = self._check_data_sufficiency()", new="        warnings, disqualification = self._check_data_sufficiency()"),
    dict(id="c10-custom-threshold-passed", property="C10", kind="break", expect_rule="R10.4", file=DD,
         old="        dsc = DailySufficiencyCriteria(data=sufficiency_df, is_reporting_data=True)", new="        dsc = DailySufficiencyCriteria(data=sufficiency_df, is_reporting_data=True, min_fraction_daily_coverage=0.5)"),
    dict(id="c10-regress-hourly-reporting-flag", property="C10", kind="break", expect_rule="R10.4", file=HD,
         old="            is_electricity_data=self.is_electricity_data,\n            is_reporting_data=True,\n", new="            is_electricity_data=self.is_electricity_data,\n"),
    dict(id="c10-gas-flag-not-forwarded", property="C10", kind="break", expect_rule="R10.4", file=DD,
         old="            data=sufficiency_df, is_electricity_data=self.is_electricity_data\n        )", new="            data=sufficiency_df\n        )"),
    dict(id="c10-valid-days-ignore-temperature", property="C10", kind="break", expect_rule="R10.2", file=S,
         old="            valid_rows = valid_meter_value_rows & valid_temperature_rows", new="            valid_rows = valid_meter_value_rows"),
    dict(id="c10-valid-days-or", property="C10", kind="break", expect_rule="R10.2", file=S,
         old="            valid_rows = valid_meter_value_rows & valid_temperature_rows", new="            valid_rows = valid_meter_value_rows | valid_temperature_rows"),
    dict(id="c10-valid-days-unweighted", property="C10", kind="break", expect_rule="R10.2", file=S,
         old="        n_valid_days = int((valid_rows * row_day_counts).sum())", new="        n_valid_days = int(valid_rows.sum())"),
    dict(id="c10-valid-temperature-coverage-ge", property="C10", kind="break", expect_rule="R10.2", file=S,
         old="        ) > self.min_fraction_hourly_temperature_coverage_per_period", new="        ) >= self.min_fraction_hourly_temperature_coverage_per_period"),
    dict(id="c10-monthly-meter-max-not-mean", property="C10", kind="break", expect_rule="R10.2", file=S,
         old='                self.data["observed"]\n                .groupby(self.data.index.month)\n                .apply(lambda x: x.notna().mean())',
         new='                self.data["observed"]\n                .groupby(self.data.index.month)\n                .apply(lambda x: x.notna().max())'),
    dict(id="c10-monthly-meter-all", property="C10", kind="break", expect_rule="R10.2", file=S,
         old='                non_null_meter_percentage_per_month < self.min_fraction_daily_coverage\n            ).any():',
         new='                non_null_meter_percentage_per_month < self.min_fraction_daily_coverage\n            ).all():'),
    dict(id="c10-benign-valid-days-ifexp", property="C10", kind="benign", file=S,
         old="        if not self.is_reporting_data:\n            valid_rows = valid_meter_value_rows & valid_temperature_rows\n        else:\n            valid_rows = valid_temperature_rows\n",
         new="        valid_rows = valid_temperature_rows if self.is_reporting_data else (valid_temperature_rows & valid_meter_value_rows)\n"),
    dict(id="c10-benign-monthly-notnull", property="C10", kind="benign", file=S,
         old='                self.data["observed"]\n                .groupby(self.data.index.month)\n                .apply(lambda x: x.notna().mean())',
         new='                self.data.observed\n                .groupby(self.data.index.month)\n                .apply(lambda s: s.notnull().mean())'),
    dict(id="c10-hourly-flags-from-filled-temperature", property="C10", kind="break", expect_rule="R10.2", file=HD,
         old='    df.loc[df["interpolated_temperature"] == 1, "temperature"] = np.nan\n', new='',
         ),
    dict(id="c10-hourly-usage-not-blanked", property="C10", kind="break", expect_rule="R10.2", file=HD,
         old='    df.loc[df["interpolated_observed"] == 1, "observed"] = np.nan\n', new=''),
    dict(id="c10-hourly-null-flag-swapped", property="C10", kind="break", expect_rule="R10.2", file=HD,
         old='    df["temperature_null"] = df["temperature"].isnull().astype(float)', new='    df["temperature_null"] = df["temperature"].notnull().astype(float)'),
    dict(id="c10-benign-hourly-blank-loop", property="C10", kind="benign", file=HD,
         old='    df.loc[df["interpolated_observed"] == 1, "observed"] = np.nan\n    df.loc[df["interpolated_temperature"] == 1, "temperature"] = np.nan\n    if "ghi" in df.columns:\n        df.loc[df["interpolated_ghi"] == 1, "ghi"] = np.nan\n',
         new='    for col in ("observed", "temperature", "ghi"):\n        if col in df.columns:\n            df.loc[df[f"interpolated_{col}"] == 1, col] = np.nan\n'),
    dict(id="c10-benign-hourly-null-flag-complement", property="C10", kind="benign", file=HD,
         old='    df["temperature_null"] = df["temperature"].isnull().astype(float)', new='    df["temperature_null"] = 1.0 - df["temperature_not_null"]'),
    dict(id="c10-benign-hourly-mask-form", property="C10", kind="benign", file=HD,
         old='    df.loc[df["interpolated_temperature"] == 1, "temperature"] = np.nan\n', new='    df["temperature"] = df["temperature"].mask(df["interpolated_temperature"] == 1)\n'),
    dict(id="c10-benign-not-ge", property="C10", kind="benign", file=S,
         old="if fraction_valid_days < self.min_fraction_daily_coverage:", new="if not (fraction_valid_days >= self.min_fraction_daily_coverage):"),
    dict(id="c10-benign-span-parenthesised", property="C10", kind="benign", file=S,
         old="            and self.n_days_total > MAX_BASELINE_LENGTH\n            or self.n_days_total < MIN_BASELINE_LENGTH",
         new="            and (self.n_days_total >= MAX_BASELINE_LENGTH + 1\n            or MIN_BASELINE_LENGTH > self.n_days_total)"),
    dict(id="c10-benign-dead-method-edit", property="C10", kind="benign", file=S,
         old='''    def _check_hourly_consecutive_temperature_data(self):''', new='''    def _check_hourly_consecutive_temperature_data_unused(self):'''),
    {'id': 'c10-day-counts-on-period-end', 'property': 'C10', 'kind': 'break', 'expect_rule': 'R10.2', 'expect_key': 'period-to-next-timestamp', 'file': 'opendsm/eemeter/common/data_processor_utilities.py', 'old': '    timedeltas = (index[1:] - index[:-1]).append(pd.TimedeltaIndex([pd.NaT]))', 'new': '    timedeltas = pd.TimedeltaIndex([pd.NaT]).append(index[1:] - index[:-1])'},
    {'id': 'c10-day-counts-hours-per-day', 'property': 'C10', 'kind': 'break', 'expect_rule': 'R10.2', 'expect_key': 'period-to-next-timestamp', 'file': 'opendsm/eemeter/common/data_processor_utilities.py', 'old': '    timedelta_days = timedeltas.total_seconds() / (60 * 60 * 24)', 'new': '    timedelta_days = timedeltas.total_seconds() / (60 * 60 * 12)'},
    {'id': 'c10-benign-day-counts-constant', 'property': 'C10', 'kind': 'benign', 'file': 'opendsm/eemeter/common/data_processor_utilities.py', 'old': '    timedelta_days = timedeltas.total_seconds() / (60 * 60 * 24)', 'new': '    seconds_per_day = 86400\n    timedelta_days = timedeltas.total_seconds() / seconds_per_day'},
    # R10.5 (rules/daycompletion.py): the frame the criteria count days on has one row per calendar day
    {'id': 'c10-days-matched-normalised-one-side', 'property': 'C10', 'kind': 'break', 'expect_rule': 'R10.5', 'expect_key': 'day-key-mismatch', 'file': 'opendsm/eemeter/models/daily/data.py',
     'old': '            ~all_days_df.index.strftime("%Y%m%d").isin(\n                meter_series.index.strftime("%Y%m%d")\n            )', 'new': '            ~all_days_df.index.isin(meter_series.index.normalize())'},
    {'id': 'c10-days-matched-on-dayofyear', 'property': 'C10', 'kind': 'break', 'expect_rule': 'R10.5', 'expect_key': 'day-key:dayofyear', 'file': 'opendsm/eemeter/models/daily/data.py',
     'old': '            ~all_days_df.index.strftime("%Y%m%d").isin(\n                meter_series.index.strftime("%Y%m%d")\n            )', 'new': '            ~all_days_df.index.dayofyear.isin(meter_series.index.dayofyear)'},
    {'id': 'c10-benign-days-matched-normalised-both-sides', 'property': 'C10', 'kind': 'benign', 'file': 'opendsm/eemeter/models/daily/data.py',
     'old': '            ~all_days_df.index.strftime("%Y%m%d").isin(\n                meter_series.index.strftime("%Y%m%d")\n            )', 'new': '            ~all_days_df.index.normalize().isin(meter_series.index.normalize())'},
]
