"""Both-ways self-test of the checkers (DESIGN section 7).

Each catalogue entry is a one-construct edit of the analysed tree that still parses:
  kind=break  -> the property's check must exit 1 and name the expected rule (and key fragment);
  kind=benign -> the check must stay silent (exit 0).
Edits are applied to a scratch copy of the package made under a fresh temporary directory outside
/repo and /verif and removed immediately afterwards.  A variant whose `old` text no longer occurs
in the current tree is reported as stale and skipped (never a failure: the tree may have changed).
"""
from __future__ import annotations

import ast
import concurrent.futures as cf
import glob
import json
import os
import shutil
import subprocess
import sys
import tempfile
import time
from typing import Any, Dict, List, Optional

HERE = os.path.dirname(os.path.abspath(__file__))
VERIF = os.path.dirname(HERE)
EXTRA_FILES = ["tests/daily_model/utilities/test_config.py", "docs/source/learn/daily_billing_model.md", "setup.py",
               "docs/source/learn/hourly_model.md"]


def load_catalogue() -> List[Dict[str, Any]]:
    out = []
    seen = set()
    for p in sorted(glob.glob(os.path.join(HERE, "catalogue", "c*.py"))):
        ns: Dict[str, Any] = {}
        with open(p, encoding="utf-8") as fh:
            exec(compile(fh.read(), p, "exec"), ns)
        for e in ns.get("VARIANTS", []):
            e = dict(e)
            e.setdefault("source", os.path.basename(p))
            if e["id"] in seen:
                raise ValueError(f"duplicate variant id {e['id']}")
            seen.add(e["id"])
            out.append(e)
    return out


def make_scratch(repo: str = "/repo") -> str:
    td = tempfile.mkdtemp(prefix="vt-scratch-")
    shutil.copytree(os.path.join(repo, "opendsm"), os.path.join(td, "opendsm"),
                    ignore=shutil.ignore_patterns("__pycache__", "*.pyc", "*.csv", "*.gz", "*.parquet", "*.json"))
    for rel in EXTRA_FILES:
        src = os.path.join(repo, rel)
        if os.path.isfile(src):
            os.makedirs(os.path.dirname(os.path.join(td, rel)), exist_ok=True)
            shutil.copy(src, os.path.join(td, rel))
    return td


def apply_edits(root: str, edits: List[Dict[str, str]]) -> Optional[str]:
    """Returns None on success, or a reason string if stale / unparsable."""
    for ed in edits:
        path = os.path.join(root, ed["file"])
        if not os.path.isfile(path):
            return f"stale: file missing {ed['file']}"
        with open(path, encoding="utf-8") as fh:
            src = fh.read()
        cnt = src.count(ed["old"])
        if cnt == 0:
            return f"stale: text not found in {ed['file']}"
        want = ed.get("count", 1)
        if cnt != want:
            return f"stale: text occurs {cnt}x (expected {want}) in {ed['file']}"
        src = src.replace(ed["old"], ed["new"])
        if path.endswith(".py"):
            try:
                ast.parse(src)
            except SyntaxError as e:
                return f"broken-variant: does not parse: {e}"
        with open(path, "w", encoding="utf-8") as fh:
            fh.write(src)
    return None


_BASE: Dict[str, Any] = {}
_BASE_LOCK = __import__("threading").Lock()


def _parse_viols(out: str) -> List[str]:
    viols = []
    lines = out.splitlines()
    for i, ln in enumerate(lines):
        if ln.startswith("VIOLATION") and i > 0:
            viols.append(lines[i - 1].strip())
    return viols


def _parse_known(out: str):
    ks = set()
    for ln in out.splitlines():
        if ln.startswith("KNOWN-FINDING:") and ln.rstrip().endswith("]"):
            tail = ln[ln.rfind("[") + 1:-1]
            rule, _, rest = tail.partition(" ")
            ks.add(f"{rule} [{rest.rsplit(' @ ', 1)[0]}]")
    return ks


def _vkey(v: str) -> str:
    """'Rxx file:line [key]: msg' -> 'Rxx [key]' (line numbers are not part of identity)."""
    rule = v.split(" ", 1)[0]
    a, b = v.find("["), v.find("]:")
    return f"{rule} {v[a:b + 1]}" if a >= 0 and b >= 0 else v


def baseline(prop: str, repo: str = "/repo") -> Dict[str, Any]:
    with _BASE_LOCK:
        if (prop, repo) in _BASE:
            return _BASE[(prop, repo)]
        td = tempfile.mkdtemp(prefix="vt-base-")
        try:
            p = subprocess.run([sys.executable, os.path.join(VERIF, "check.py"), prop, "--repo", repo,
                                "--evidence-dir", td, "--tier", "quick", "--no-selftest"], capture_output=True, text=True, timeout=600)
        finally:
            shutil.rmtree(td, ignore_errors=True)
        b = {"exit": p.returncode, "viols": {_vkey(v) for v in _parse_viols(p.stdout)}, "known": _parse_known(p.stdout)}
        _BASE[(prop, repo)] = b
        return b


def run_variant(entry: Dict[str, Any], repo: str = "/repo") -> Dict[str, Any]:
    t0 = time.time()
    base = baseline(entry["property"], repo)
    td = make_scratch(repo)
    try:
        edits = entry.get("edits") or [{"file": entry["file"], "old": entry["old"], "new": entry["new"], "count": entry.get("count", 1)}]
        why = apply_edits(td, edits)
        res = {"id": entry["id"], "property": entry["property"], "kind": entry["kind"]}
        if why is not None:
            res.update(status="stale" if why.startswith("stale") else "invalid", reason=why)
            return res
        evd = os.path.join(td, "_evidence")
        p = subprocess.run([sys.executable, os.path.join(VERIF, "check.py"), entry["property"], "--repo", td,
                            "--evidence-dir", evd, "--tier", "quick"], capture_output=True, text=True, timeout=600)
        out = p.stdout
        lines = out.splitlines()
        all_viols = _parse_viols(out)
        viols = [v for v in all_viols if _vkey(v) not in base["viols"]]  # new w.r.t. the unmodified tree
        res.update(exit=p.returncode, violations=viols[:6], wall_s=round(time.time() - t0, 2))
        if entry["kind"] == "break":
            want_rule = entry.get("expect_rule")
            want_key = entry.get("expect_key")
            want_rules = [want_rule] if isinstance(want_rule, str) else list(want_rule or [])
            hit = [v for v in viols if (not want_rules or any(v.startswith(r + " ") for r in want_rules)) and (not want_key or want_key in v)]
            if p.returncode == 1 and hit:
                res["status"] = "ok"
            elif p.returncode == 1:
                res["status"] = "fail"
                res["reason"] = f"fired, but not on the expected rule/key ({want_rule} {want_key})"
            else:
                res["status"] = "fail"
                res["reason"] = f"expected VIOLATION, got exit {p.returncode}: " + "; ".join(l for l in lines if l.startswith("ANALYSIS-ERROR"))[:300]
        elif entry["kind"] == "repair":
            now_known = _parse_known(out)
            gone = [b for b in base["viols"] if b.startswith(entry.get("expect_gone", "") + " ") and b not in {_vkey(v) for v in all_viols}]
            gone += [b for b in base.get("known", ()) if b.startswith(entry.get("expect_gone", "") + " ") and b not in now_known]
            if gone and not viols and p.returncode in (0, 1):
                res["status"] = "ok"
            else:
                res["status"] = "fail"
                res["reason"] = f"repair variant: gone={gone} new={viols[:2]} exit={p.returncode}"
        else:
            if p.returncode == base["exit"] and not viols:
                res["status"] = "ok"
            else:
                res["status"] = "fail"
                res["reason"] = f"benign variant raised exit {p.returncode}: " + "; ".join(viols[:3] + [l for l in lines if l.startswith("ANALYSIS-ERROR")])[:400]
        return res
    except Exception as e:  # noqa
        return {"id": entry.get("id"), "property": entry.get("property"), "kind": entry.get("kind"), "status": "fail", "reason": f"runner error: {e!r}"}
    finally:
        shutil.rmtree(td, ignore_errors=True)


def run_entries(entries: List[Dict[str, Any]], jobs: int = 16, repo: str = "/repo") -> List[Dict[str, Any]]:
    if not entries:
        return []
    with cf.ThreadPoolExecutor(max_workers=min(jobs, len(entries))) as ex:
        return list(ex.map(lambda e: run_variant(e, repo), entries))


def run_for_property(prop: str, repo: str = "/repo") -> Dict[str, Any]:
    entries = [e for e in load_catalogue() if e["property"] == prop]
    res = run_entries(entries, repo=repo)
    failed = [f"{r['id']}: {r.get('reason')}" for r in res if r["status"] in ("fail", "invalid")]
    return {
        "variants": len(res),
        "break_ok": sum(1 for r in res if r["kind"] == "break" and r["status"] == "ok"),
        "benign_ok": sum(1 for r in res if r["kind"] in ("benign", "repair") and r["status"] == "ok"),
        "stale": [r["id"] for r in res if r["status"] == "stale"],
        "failed": failed,
        "results": [{k: r.get(k) for k in ("id", "kind", "status", "exit", "wall_s", "reason")} for r in res],
    }


def main(argv=None) -> int:
    import argparse
    ap = argparse.ArgumentParser()
    ap.add_argument("props", nargs="*")
    ap.add_argument("--id", action="append")
    ap.add_argument("--jobs", type=int, default=16)
    ap.add_argument("-v", action="store_true")
    a = ap.parse_args(argv)
    cat = load_catalogue()
    if a.props:
        cat = [e for e in cat if e["property"] in {p.upper() for p in a.props}]
    if a.id:
        cat = [e for e in cat if e["id"] in a.id]
    t0 = time.time()
    res = run_entries(cat, a.jobs)
    bad = 0
    for r in res:
        if r["status"] != "ok" or a.v:
            print(f"{r['status']:7s} {r['property']} {r['kind']:6s} {r['id']}: {r.get('reason') or ''} {'; '.join(r.get('violations') or [])[:200] if a.v else ''}")
        if r["status"] in ("fail", "invalid"):
            bad += 1
    print(f"selftest: {len(res)} variants, {sum(1 for r in res if r['status']=='ok')} ok, "
          f"{sum(1 for r in res if r['status']=='stale')} stale, {bad} failed, {time.time()-t0:.1f}s")
    return 2 if bad else 0


if __name__ == "__main__":
    sys.exit(main())
