"""Reference (textbook) definitions of the statistics the library reports, written as expressions over
uninterpreted reductions of the input series.  This file is *parsed* by rules/c16.py, never executed.

Atoms: ColumnMetrics: s = the series.  BaselineMetrics: df = the finite observed/predicted pairs with
df.observed, df.predicted, df.residuals (= observed - predicted); num_model_params.  ReportingMetrics: rdf =
finite reporting pairs; b_* = the same quantities of the baseline; confidence_level, t_tail.
Functions: Sum, Mean, Len, Var0 (population variance), Abs, Median, Skew, Kurt, Autocorr1 (lag-1), IQ(x, a, b) =
quantile_b(x) - quantile_a(x), Corr, SafeDiv(num, den) (= num/den, undefined when den is not safely positive),
FiniteOr(x, c), Max, MAD, TStat(alpha, dof, tail)."""

COLUMN = {
    "sum": "Sum(s)",
    "mean": "Sum(s) / Len(s)",
    "variance": "Var0(s)",
    "std": "sqrt(Var0(s))",
    "cvstd": "sqrt(Var0(s)) / (Sum(s) / Len(s))",
    "sum_squared": "Sum(s ** 2)",
    "median": "Median(s)",
    "MAD_scaled": "MAD(s, Median(s))",
    "iqr": "IQ(s, 0.25, 0.75)",
    "skew": "Skew(s)",
    "kurtosis": "Kurt(s)",
}

# helper names usable inside the BASELINE references (expanded textually before parsing)
BASELINE_LET = {
    "N": "Len(df)",
    "SSE": "Sum(df.residuals ** 2)",
    "OBS_MEAN": "(Sum(df.observed) / Len(df))",
    "OBS_IQR": "IQ(df.observed, 0.25, 0.75)",
    "NPRIME": "FiniteOr(Len(df) * (1 - Autocorr1(df.residuals)) / (1 + Autocorr1(df.residuals)), 1)",
    "DDOF": "Max(Len(df) - num_model_params, 1)",
    "DDOF_AC": "Max(FiniteOr(Len(df) * (1 - Autocorr1(df.residuals)) / (1 + Autocorr1(df.residuals)), 1) - num_model_params, 1)",
    "MAE": "Mean(Abs(df.residuals))",
    "MBE": "(Sum(df.residuals) / Len(df))",
    "R2": "Corr(df.observed, df.predicted) ** 2",
}
BASELINE = {
    "n": "N",
    "n_prime": "NPRIME",
    "ddof": "DDOF",
    "ddof_autocorr": "DDOF_AC",
    "mae": "MAE",
    "nmae": "SafeDiv(MAE, OBS_MEAN)",
    "pnmae": "SafeDiv(MAE, OBS_IQR)",
    "mbe": "MBE",
    "nmbe": "SafeDiv(MBE, OBS_MEAN)",
    "pnmbe": "SafeDiv(MBE, OBS_IQR)",
    "sse": "SSE",
    "mse": "SSE / N",
    "rmse": "sqrt(SSE / N)",
    "rmse_adj": "sqrt(SSE / DDOF)",
    "rmse_autocorr_adj": "sqrt(SSE / DDOF_AC)",
    "cvrmse": "SafeDiv(sqrt(SSE / N), OBS_MEAN)",
    "cvrmse_adj": "SafeDiv(sqrt(SSE / DDOF), OBS_MEAN)",
    "cvrmse_autocorr_adj": "SafeDiv(sqrt(SSE / DDOF_AC), OBS_MEAN)",
    "pnrmse": "SafeDiv(sqrt(SSE / N), OBS_IQR)",
    "pnrmse_adj": "SafeDiv(sqrt(SSE / DDOF), OBS_IQR)",
    "pnrmse_autocorr_adj": "SafeDiv(sqrt(SSE / DDOF_AC), OBS_IQR)",
    "r_squared": "R2",
    "r_squared_adj": "1 - SafeDiv((1 - R2) * (N - 1), DDOF - 1)",
}
# statistics the property names as 'undefined rather than a number' when the denominator is unsafe
MUST_BE_SAFE = ["nmae", "nmbe", "cvrmse", "cvrmse_adj", "cvrmse_autocorr_adj", "pnrmse", "pnrmse_adj", "pnrmse_autocorr_adj", "r_squared_adj", "pnmae", "pnmbe"]

REPORTING_LET = {
    "B_N": "Len(b_df)",
    "B_NPRIME": "FiniteOr(Len(b_df) * (1 - Autocorr1(b_df.residuals)) / (1 + Autocorr1(b_df.residuals)), 1)",
    "B_DDOF": "Max(Len(b_df) - b_num_model_params, 1)",
    "B_CVRMSE_AC": "SafeDiv(sqrt(Sum(b_df.residuals ** 2) / Max(FiniteOr(Len(b_df) * (1 - Autocorr1(b_df.residuals)) / (1 + Autocorr1(b_df.residuals)), 1) - b_num_model_params, 1)), (Sum(b_df.observed) / Len(b_df)))",
    "T": "TStat(1 - confidence_level, Max(Len(b_df) - b_num_model_params, 1), t_tail)",
    "M": "Len(rdf)",
    "MONTHS": "Len(Unique(rdf.index.month))",
}
REPORTING_LET["BASE"] = "(Sum(rdf.predicted) * (T * B_CVRMSE_AC * sqrt(B_N / (M * B_NPRIME) * (1 + 2 / B_NPRIME))))"
REPORTING = {
    "n": ({}, "M"),
    "observed_sum": ({}, "Sum(rdf.observed)"),
    "predicted_sum": ({}, "Sum(rdf.predicted)"),
    "t_stat": ({}, "T"),
    "savings": ({}, "Sum(rdf.predicted) - Sum(rdf.observed)"),
    "total_savings_uncertainty|hourly": ({"self.data_frequency": "hourly"}, "1.26 * BASE"),
    "total_savings_uncertainty|daily": ({"self.data_frequency": "daily"}, "((-0.00024 * MONTHS + 0.03535) * MONTHS + 1.00286) * BASE"),
    "total_savings_uncertainty|billing": ({"self.data_frequency": "billing"}, "((-0.00022 * MONTHS + 0.03306) * MONTHS + 0.94054) * BASE"),
    "fsu|hourly": ({"self.data_frequency": "hourly"}, "(1.26 * BASE) / (Sum(rdf.predicted) - Sum(rdf.observed))"),
    "predicted_data_point_unc|hourly": ({"self.data_frequency": "hourly"}, "(1.26 * BASE) / sqrt(M)"),
}

DAILY_ERROR = {   # DailyModel._get_error_metrics: positions of the returned tuple
    1: "Mean(resid ** 2) ** 0.5",                                   # RMSE
    2: "Mean(Abs(resid))",                                          # MAE
    3: "Mean(resid ** 2) ** 0.5 / Mean(obs)",                       # CVRMSE
    4: "Mean(resid ** 2) ** 0.5 / IQ(obs, 0.05, 0.95)",             # PNRMSE (inter-quantile 5-95 % of observed)
}
