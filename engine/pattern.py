"""Structural statement/expression patterns with metavariables, so that obligations written against a statement shape
survive renaming of local variables.

A pattern is Python source in which identifiers starting with `_` and ending with `_` (e.g. `_F_`, `_M_`) are metavariables:
each binds to one *Name or dotted attribute chain* consistently within a match; `__` (double underscore) matches any expression.
Everything else must agree node by node (constants by value, attribute names, call shapes, keyword names)."""
from __future__ import annotations

import ast
from typing import Dict, Iterator, List, Optional

from .index import unparse, walk_no_nested


def _is_meta(n: ast.AST) -> Optional[str]:
    if isinstance(n, ast.Name) and len(n.id) >= 3 and n.id.startswith("_") and n.id.endswith("_") and n.id != "__":
        return n.id
    return None


def _match(p: ast.AST, n: ast.AST, b: Dict[str, str]) -> bool:
    if isinstance(p, ast.Name) and p.id == "__":
        return isinstance(n, ast.expr)
    m = _is_meta(p)
    if m is not None:
        if not isinstance(n, (ast.Name, ast.Attribute)):
            return False
        t = unparse(n)
        if m in b:
            return b[m] == t
        b[m] = t
        return True
    if type(p) is not type(n):
        return False
    for field, pv in ast.iter_fields(p):
        if field in ("ctx", "lineno", "col_offset", "end_lineno", "end_col_offset", "type_comment", "kind"):
            continue
        nv = getattr(n, field, None)
        if isinstance(pv, list):
            if not isinstance(nv, list) or len(pv) != len(nv):
                return False
            for a, c in zip(pv, nv):
                if isinstance(a, ast.AST):
                    if not _match(a, c, b):
                        return False
                elif a != c:
                    return False
        elif isinstance(pv, ast.AST):
            if not isinstance(nv, ast.AST) or not _match(pv, nv, b):
                return False
        else:
            if pv != nv:
                return False
    return True


def parse_pattern(src: str) -> ast.AST:
    mod = ast.parse(src)
    st = mod.body[0]
    if isinstance(st, ast.Expr) and len(mod.body) == 1 and not src.strip().endswith(";"):
        return st.value if not isinstance(st.value, ast.Constant) else st
    return st


def match(pattern: str, node: ast.AST, bindings: Optional[Dict[str, str]] = None) -> Optional[Dict[str, str]]:
    p = parse_pattern(pattern)
    b = dict(bindings or {})
    # allow a statement pattern that is an expression to match Expr statements / expressions alike
    if isinstance(p, ast.expr) and isinstance(node, ast.Expr):
        node = node.value
    return b if _match(p, node, b) else None


def find(pattern: str, root: ast.AST, bindings: Optional[Dict[str, str]] = None, nested: bool = False) -> List[Dict[str, str]]:
    """All bindings under which some statement/expression inside `root` matches the pattern."""
    p = parse_pattern(pattern)
    out = []
    nodes = ast.walk(root) if nested else walk_no_nested(root)
    for n in nodes:
        if isinstance(p, ast.stmt) and not isinstance(n, ast.stmt):
            continue
        if isinstance(p, ast.expr) and not isinstance(n, ast.expr):
            continue
        b = dict(bindings or {})
        if _match(p, n, b):
            b["@node"] = n  # type: ignore
            out.append(b)
    return out


def has(pattern: str, root: ast.AST, bindings: Optional[Dict[str, str]] = None, nested: bool = False) -> bool:
    return bool(find(pattern, root, bindings, nested))
