"""Structural statement/expression patterns with metavariables, so that obligations written against a statement shape
survive renaming of local variables.

A pattern is Python source in which identifiers starting with `_` and ending with `_` (e.g. `_F_`, `_M_`) are metavariables:
each binds to one *Name or dotted attribute chain* consistently within a match; `__` (double underscore) matches any expression.
Everything else must agree node by node (constants by value, attribute names, call shapes, keyword names)."""
from __future__ import annotations

import ast
from typing import Dict, Iterator, List, Optional

from .index import unparse, walk_no_nested


def _is_meta(n: ast.AST) -> Optional[str]:
    if isinstance(n, ast.Name) and len(n.id) >= 3 and n.id.startswith("_") and n.id.endswith("_") and n.id != "__":
        return n.id
    return None


class _Ctx:
    """Matching context: `resolver(name_node, at_stmt)` returns (defining expression, defining statement) for a local with a single
    stable definition, or None.  `at` is the statement in whose context the code node is evaluated."""

    def __init__(self, resolver=None, at=None, depth=0):
        self.resolver = resolver
        self.at = at
        self.depth = depth


def _match(p: ast.AST, n: ast.AST, b: Dict[str, str], cx: Optional[_Ctx] = None) -> bool:
    if isinstance(p, ast.Name) and p.id == "__":
        return isinstance(n, ast.expr)
    m = _is_meta(p)
    if m is not None:
        if not isinstance(n, ast.expr):
            return False
        t = unparse(n)
        if m in b:
            if b[m] == t:
                return True
            return _resolved(p, n, b, cx)
        b[m] = t
        return True
    if type(p) is not type(n):
        return _resolved(p, n, b, cx)
    saved = dict(b)
    if _match_fields(p, n, b, cx):
        return True
    b.clear()
    b.update(saved)
    return _resolved(p, n, b, cx)


def _resolved(p: ast.AST, n: ast.AST, b: Dict[str, str], cx: Optional[_Ctx]) -> bool:
    """The code has a local where the pattern spells the expression out: match against the local's definition."""
    if cx is None or cx.resolver is None or cx.depth > 6 or not isinstance(n, ast.Name) or not isinstance(getattr(n, "ctx", None), ast.Load):
        return False
    r = cx.resolver(n, cx.at)
    if r is None:
        return False
    expr, st = r
    saved = dict(b)
    if _match(p, expr, b, _Ctx(cx.resolver, st, cx.depth + 1)):
        return True
    b.clear()
    b.update(saved)
    return False


def _match_fields(p: ast.AST, n: ast.AST, b: Dict[str, str], cx: Optional[_Ctx]) -> bool:
    for field, pv in ast.iter_fields(p):
        if field in ("ctx", "lineno", "col_offset", "end_lineno", "end_col_offset", "type_comment", "kind"):
            continue
        nv = getattr(n, field, None)
        if isinstance(pv, list):
            if not isinstance(nv, list) or len(pv) != len(nv):
                return False
            if field == "keywords":  # keyword arguments match by name, in any order
                byname = {k.arg: k for k in nv}
                if len(byname) != len(nv) or {k.arg for k in pv} != set(byname):
                    return False
                for k in pv:
                    if not _match(k.value, byname[k.arg].value, b, cx):
                        return False
                continue
            for a, c in zip(pv, nv):
                if isinstance(a, ast.AST):
                    if not _match(a, c, b, cx):
                        return False
                elif a != c:
                    return False
        elif isinstance(pv, ast.AST):
            if not isinstance(nv, ast.AST) or not _match(pv, nv, b, cx):
                return False
        else:
            if pv != nv:
                return False
    return True


def parse_pattern(src: str) -> ast.AST:
    mod = ast.parse(src)
    st = mod.body[0]
    if isinstance(st, ast.Expr) and len(mod.body) == 1 and not src.strip().endswith(";"):
        return st.value if not isinstance(st.value, ast.Constant) else st
    return st


def match(pattern: str, node: ast.AST, bindings: Optional[Dict[str, str]] = None, resolver=None, at=None) -> Optional[Dict[str, str]]:
    p = parse_pattern(pattern)
    b = dict(bindings or {})
    # allow a statement pattern that is an expression to match Expr statements / expressions alike
    if isinstance(p, ast.expr) and isinstance(node, ast.Expr):
        node = node.value
    return b if _match(p, node, b, _Ctx(resolver, at)) else None


def find(pattern: str, root: ast.AST, bindings: Optional[Dict[str, str]] = None, nested: bool = False, resolver=None, stmt_of=None) -> List[Dict[str, str]]:
    """All bindings under which some statement/expression inside `root` matches the pattern."""
    p = parse_pattern(pattern)
    out = []
    nodes = ast.walk(root) if nested else walk_no_nested(root)
    for n in nodes:
        if isinstance(p, ast.stmt) and not isinstance(n, ast.stmt):
            continue
        if isinstance(p, ast.expr) and not isinstance(n, ast.expr):
            continue
        b = dict(bindings or {})
        at = n if isinstance(n, ast.stmt) else (stmt_of(n) if stmt_of else None)
        if _match(p, n, b, _Ctx(resolver, at)):
            b["@node"] = n  # type: ignore
            out.append(b)
    return out


def has(pattern: str, root: ast.AST, bindings: Optional[Dict[str, str]] = None, nested: bool = False, resolver=None, stmt_of=None) -> bool:
    return bool(find(pattern, root, bindings, nested, resolver, stmt_of))


class PatCtx:
    """Threaded matching of several patterns inside one function: a metavariable bound by one pattern keeps its binding in
    the following ones, so `_S_ = remove_duplicates(data_series)` followed by `_T_ = _S_.index[1:] - _S_.index[:-1]` checks
    that the *same* local flows on, whatever it is called."""

    def __init__(self, root: ast.AST, nested: bool = False, bindings: Optional[Dict[str, str]] = None, resolve: bool = True):
        self.root = root
        self.nested = nested
        self.b: Dict[str, str] = dict(bindings or {})
        self.last: Optional[ast.AST] = None
        self.resolver = None
        self.stmt_of = None
        if resolve and isinstance(root, (ast.FunctionDef, ast.AsyncFunctionDef)):
            self.resolver, self.stmt_of = make_resolver(root)

    def find(self, pattern: str) -> List[Dict[str, str]]:
        return find(pattern, self.root, self.b, self.nested, self.resolver, self.stmt_of)

    def has(self, pattern: str, bind: bool = True) -> bool:
        ms = self.find(pattern)
        if not ms:
            return False
        if bind:
            m = ms[0]
            self.last = m.pop("@node", None)  # type: ignore
            self.b.update({k: v for k, v in m.items() if k != "@node"})
        return True

    def all(self, *patterns: str) -> bool:
        ok = True
        for p in patterns:
            ok = self.has(p) and ok
        return ok

    def name(self, meta: str, default: str = "?") -> str:
        return self.b.get(meta, default)


def make_resolver(fn: ast.AST, check_stability: bool = True):
    """resolver(name, at) for single-definition locals of `fn` whose defining expression means the same at the use:
    the local has exactly one definition in the function (a plain `name = expr`), that definition is the only one reaching
    `at`, and every name read by `expr` has the same reaching definitions at the definition and at `at`."""
    from .cfg import CFG
    from .dataflow import ReachingDefs
    cfg = CFG(fn)
    rd = ReachingDefs(fn, cfg)
    parent: Dict[int, ast.AST] = {}
    for x in ast.walk(fn):
        for c in ast.iter_child_nodes(x):
            parent[id(c)] = x
    stmts = {id(s) for s in cfg.stmts()}

    def stmt_of(n: ast.AST):
        cur = n
        while cur is not None and id(cur) not in stmts:
            cur = parent.get(id(cur))
        return cur

    ndefs: Dict[str, int] = {}
    for x in ast.walk(fn):
        if isinstance(x, ast.Name) and isinstance(x.ctx, (ast.Store, ast.Del)):
            ndefs[x.id] = ndefs.get(x.id, 0) + 1
        elif isinstance(x, ast.arg):
            ndefs[x.arg] = ndefs.get(x.arg, 0) + 1

    def resolver(name: ast.Name, at):
        if at is None or ndefs.get(name.id, 0) < 1:
            return None  # (a name defined several times is still looked through where exactly one definition reaches)
        defs = rd.reaching(at, name.id)
        if len(defs) != 1 or defs[0].kind != "assign":
            return None
        v, ds = rd.value_of(defs[0]), rd.def_stmt(defs[0])
        if v is None or ds is None:
            return None
        if check_stability:
            for x in ast.walk(v):
                if isinstance(x, ast.Name) and isinstance(x.ctx, ast.Load):
                    a = {(d.stmt_id, d.kind) for d in rd.reaching(ds, x.id)}
                    c = {(d.stmt_id, d.kind) for d in rd.reaching(at, x.id)}
                    if a != c:
                        return None
        return v, ds

    return resolver, stmt_of


class Expander:
    """Rewrites an expression with every single-definition local replaced by its defining expression (transitively), so that
    `c = sub.coefficients; k = c.model_key; f(k)` reads `f(sub.coefficients.model_key)` whatever the locals are called."""

    def __init__(self, fn: ast.AST, through_updates: bool = False):
        """through_updates: also look through `x = f(x)` chains (names inside a definition are expanded in the definition's own
        context, so the result describes the dataflow; names that stay may denote an older value than the same name at the use)."""
        self.resolver, self.stmt_of = make_resolver(fn, check_stability=not through_updates)

    def expand(self, e: ast.AST, at: Optional[ast.AST] = None, depth: int = 6) -> ast.AST:
        import copy
        at = at if at is not None else self.stmt_of(e)
        ex = self

        class T(ast.NodeTransformer):
            def visit_Name(self, n: ast.Name):
                if isinstance(n.ctx, ast.Load) and depth > 0:
                    r = ex.resolver(n, at)
                    if r is not None:
                        return ex.expand(copy.deepcopy(r[0]), r[1], depth - 1)
                return n

        return T().visit(copy.deepcopy(e))

    def text(self, e: ast.AST, at: Optional[ast.AST] = None) -> str:
        return unparse(self.expand(e, at))
