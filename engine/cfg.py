"""Statement-level control-flow graph for one function, with dominators, must-hold guard facts
and bounded path enumeration.  Hand-built over the statement kinds the repository uses
(if/elif/else, for/while + break/continue, try/except/else/finally, with, return, raise).

Exceptional control flow is modelled only where the source makes it explicit: a `raise`
statement, and — conservatively — an edge from every statement inside a `try` body to each of
its handlers.  Calls are not assumed to raise.
"""
from __future__ import annotations

import ast
from dataclasses import dataclass, field
from typing import Dict, FrozenSet, Iterator, List, Optional, Set, Tuple

import networkx as nx

from .index import FuncNode, unparse

ENTRY, EXIT, RAISE = "ENTRY", "EXIT", "RAISE"


@dataclass(frozen=True)
class Fact:
    """`test` evaluated to `polarity` (for loops: polarity True = body entered)."""
    test_id: int
    polarity: bool

    def __repr__(self):
        return f"Fact({self.test_id},{self.polarity})"


class CFG:
    def __init__(self, fn: ast.AST):
        self.fn = fn
        self.g = nx.DiGraph()
        self.g.add_node(ENTRY)
        self.g.add_node(EXIT)
        self.g.add_node(RAISE)
        self.stmt_of: Dict[int, ast.AST] = {}
        self.tests: Dict[int, ast.AST] = {}  # id(stmt) -> test expr for If/While (For: iter)
        self._handlers_stack: List[List[int]] = []
        self._finally_stack: List[List[ast.stmt]] = []
        out = self._seq(fn.body, {(ENTRY, None)}, None)
        for p, lab in out:
            self._edge(p, EXIT, lab)
        self._idom = None
        self._facts: Optional[Dict[object, FrozenSet[Fact]]] = None

    # ------------------------------------------------------------------ construction
    def _edge(self, a, b, label=None):
        # keep label of first edge; a second edge a->b with a different label makes it unlabelled
        if self.g.has_edge(a, b):
            if self.g.edges[a, b].get("label") != label:
                self.g.edges[a, b]["label"] = None
        else:
            self.g.add_edge(a, b, label=label)

    def _node(self, s: ast.AST) -> int:
        n = id(s)
        self.g.add_node(n)
        self.stmt_of[n] = s
        return n

    def _seq(self, stmts, preds: Set[Tuple[object, Optional[bool]]], loop):
        """preds: set of (node, edge-label).  Returns the same shape for the fall-through exits."""
        for s in stmts:
            n = self._node(s)
            for p, lab in preds:
                self._edge(p, n, lab)
            for hs in self._handlers_stack:
                for h in hs:
                    self._edge(n, h, None)
            if isinstance(s, ast.If):
                self.tests[n] = s.test
                a = self._seq(s.body, {(n, True)}, loop)
                b = self._seq(s.orelse, {(n, False)}, loop) if s.orelse else {(n, False)}
                preds = a | b
            elif isinstance(s, (ast.For, ast.AsyncFor, ast.While)):
                self.tests[n] = s.test if isinstance(s, ast.While) else s.iter
                brk: Set[Tuple[object, Optional[bool]]] = set()
                body_out = self._seq(s.body, {(n, True)}, (n, brk))
                for p, lab in body_out:
                    self._edge(p, n, lab)
                else_out = self._seq(s.orelse, {(n, False)}, loop) if s.orelse else {(n, False)}
                if isinstance(s, ast.While) and isinstance(s.test, ast.Constant) and s.test.value is True:
                    else_out = set()
                preds = else_out | brk
            elif isinstance(s, ast.Try) or s.__class__.__name__ == "TryStar":
                hnodes = [self._node(h) for h in s.handlers]
                self._handlers_stack.append(hnodes)
                for h in hnodes:
                    self._edge(n, h, None)
                body_out = self._seq(s.body, {(n, None)}, loop)
                self._handlers_stack.pop()
                h_out: Set[Tuple[object, Optional[bool]]] = set()
                for h, hn in zip(s.handlers, hnodes):
                    h_out |= self._seq(h.body, {(hn, None)}, loop)
                else_out = self._seq(s.orelse, body_out, loop) if s.orelse else body_out
                preds = else_out | h_out
                if s.finalbody:
                    preds = self._seq(s.finalbody, preds, loop)
            elif isinstance(s, (ast.With, ast.AsyncWith)):
                preds = self._seq(s.body, {(n, None)}, loop)
            elif isinstance(s, ast.Return):
                self._edge(n, EXIT, None)
                preds = set()
            elif isinstance(s, ast.Raise):
                self._edge(n, RAISE, None)
                preds = set()
            elif isinstance(s, ast.Break):
                if loop is not None:
                    loop[1].add((n, None))
                preds = set()
            elif isinstance(s, ast.Continue):
                if loop is not None:
                    self._edge(n, loop[0], None)
                preds = set()
            elif isinstance(s, ast.Match) if hasattr(ast, "Match") else False:
                outs: Set[Tuple[object, Optional[bool]]] = {(n, None)}
                for case in s.cases:
                    outs |= self._seq(case.body, {(n, None)}, loop)
                preds = outs
            else:
                preds = {(n, None)}
        return preds

    # ------------------------------------------------------------------ queries
    def nodes(self) -> Iterator[int]:
        return (n for n in self.g.nodes if n not in (ENTRY, EXIT, RAISE))

    def stmts(self) -> Iterator[ast.AST]:
        for n in self.nodes():
            yield self.stmt_of[n]

    def reachable_from_entry(self) -> Set[object]:
        return set(nx.descendants(self.g, ENTRY)) | {ENTRY}

    def idom(self):
        if self._idom is None:
            self._idom = nx.immediate_dominators(self.g, ENTRY)
        return self._idom

    def dominates(self, a: ast.AST, b: ast.AST) -> bool:
        """Every path ENTRY -> b passes through a (a is a statement node, a != b allowed equal)."""
        ia, ib = id(a), id(b)
        idom = self.idom()
        if ib not in idom:
            return True  # b unreachable
        x = ib
        while True:
            if x == ia:
                return True
            nx_ = idom.get(x)
            if nx_ is None or nx_ == x:
                return False
            x = nx_

    def paths_avoiding(self, src, dst, avoid: Set[object]) -> bool:
        """Is there a path src -> dst that touches no node in `avoid`?"""
        if src in avoid:
            return False
        seen = {src}
        stack = [src]
        while stack:
            x = stack.pop()
            if x == dst:
                return True
            for y in self.g.successors(x):
                if y not in seen and y not in avoid:
                    seen.add(y)
                    stack.append(y)
        return False

    def must_pass_through(self, targets: List[ast.AST], dst=EXIT, src=ENTRY) -> bool:
        """Every path src -> dst passes through at least one of `targets`."""
        return not self.paths_avoiding(src, dst, {id(t) for t in targets})

    def must_facts(self) -> Dict[object, FrozenSet[Fact]]:
        """Forward must-analysis: Fact(test, polarity) holds at node n iff on every path reaching n the
        last evaluation of that test took that branch and no name used in the test has been stored to since."""
        if self._facts is not None:
            return self._facts
        g = self.g
        universe: Set[Fact] = set()
        for n in self.tests:
            universe.add(Fact(n, True))
            universe.add(Fact(n, False))
        test_names: Dict[int, Set[str]] = {}
        for n, t in self.tests.items():
            names = set()
            for x in ast.walk(t):
                if isinstance(x, ast.Name):
                    names.add(x.id)
                elif isinstance(x, ast.Attribute):
                    names.add(unparse(x))
            test_names[n] = names

        def kills(node) -> Set[int]:
            s = self.stmt_of.get(node)
            if s is None:
                return set()
            stored: Set[str] = set()
            tgts = []
            if isinstance(s, ast.Assign):
                tgts = s.targets
            elif isinstance(s, (ast.AugAssign, ast.AnnAssign)):
                tgts = [s.target]
            elif isinstance(s, (ast.For, ast.AsyncFor)):
                tgts = [s.target]
            elif isinstance(s, (ast.With, ast.AsyncWith)):
                tgts = [i.optional_vars for i in s.items if i.optional_vars is not None]
            for t in tgts:
                for x in ast.walk(t):
                    if isinstance(x, ast.Name):
                        stored.add(x.id)
                    elif isinstance(x, ast.Attribute):
                        stored.add(unparse(x))
            if not stored:
                return set()
            return {tn for tn, names in test_names.items() if names & stored}

        IN: Dict[object, Set[Fact]] = {n: set(universe) for n in g.nodes}
        IN[ENTRY] = set()
        order = list(nx.dfs_preorder_nodes(g, ENTRY))
        changed = True
        it = 0
        while changed and it < 50:
            changed = False
            it += 1
            for n in order:
                if n == ENTRY:
                    continue
                acc: Optional[Set[Fact]] = None
                for p in g.predecessors(n):
                    if p not in IN:
                        continue
                    out = set(IN[p])
                    k = kills(p)
                    if k:
                        out = {f for f in out if f.test_id not in k}
                    if p in self.tests:
                        out = {f for f in out if f.test_id != p}
                        lab = g.edges[p, n].get("label")
                        if lab is not None:
                            out.add(Fact(p, lab))
                    acc = out if acc is None else (acc & out)
                if acc is None:
                    acc = set()
                if acc != IN[n]:
                    IN[n] = acc
                    changed = True
        self._facts = {n: frozenset(v) for n, v in IN.items()}
        return self._facts

    def guards(self, stmt: ast.AST) -> List[Tuple[ast.AST, bool]]:
        """(test expression, polarity) pairs that must hold whenever `stmt` executes."""
        facts = self.must_facts().get(id(stmt), frozenset())
        return [(self.tests[f.test_id], f.polarity) for f in sorted(facts, key=lambda f: (getattr(self.stmt_of[f.test_id], 'lineno', 0), f.polarity))
                if not isinstance(self.stmt_of[f.test_id], (ast.For, ast.AsyncFor))]

    def enumerate_paths(self, limit: int = 4096, dst=EXIT) -> List[List[object]]:
        """Acyclic-ish paths ENTRY -> dst with every loop back-edge taken at most once."""
        out: List[List[object]] = []
        g = self.g

        def rec(n, path, used):
            if len(out) >= limit:
                return
            if n == dst:
                out.append(list(path))
                return
            for y in g.successors(n):
                e = (n, y)
                cnt = used.get(e, 0)
                if cnt >= 1 and y in path:
                    continue
                if path.count(y) >= 2:
                    continue
                used[e] = cnt + 1
                path.append(y)
                rec(y, path, used)
                path.pop()
                used[e] = cnt

        rec(ENTRY, [ENTRY], {})
        return out


def path_condition(cfg: CFG, stmt: ast.AST) -> List[Tuple[str, bool]]:
    return [(unparse(t), pol) for t, pol in cfg.guards(stmt)]


def feasible_reach(cfg: CFG, targets, ev3_test, src=ENTRY, avoid=()) -> bool:
    """Is some node in `targets` reachable from src (without touching `avoid`) when every If/While test for
    which ev3_test(test_expr) returns True/False follows only that branch (None = either branch)?"""
    tset = set(targets)
    avoid = set(avoid)
    if src in avoid:
        return False
    seen = {src} | avoid
    stack = [src]
    while stack:
        x = stack.pop()
        if x in tset:
            return True
        forced = None
        if x in cfg.tests and isinstance(cfg.stmt_of[x], (ast.If, ast.While)):
            forced = ev3_test(cfg.tests[x])
        for y in cfg.g.successors(x):
            lab = cfg.g.edges[x, y].get("label")
            if forced is not None and lab is not None and lab != forced:
                continue
            if y not in seen:
                seen.add(y)
                stack.append(y)
    return False


def feasible_set(cfg: CFG, ev3_test, src=ENTRY):
    """All nodes reachable under the (partial) valuation."""
    seen = {src}
    stack = [src]
    while stack:
        x = stack.pop()
        forced = None
        if x in cfg.tests and isinstance(cfg.stmt_of[x], (ast.If, ast.While)):
            forced = ev3_test(cfg.tests[x])
        for y in cfg.g.successors(x):
            lab = cfg.g.edges[x, y].get("label")
            if forced is not None and lab is not None and lab != forced:
                continue
            if y not in seen:
                seen.add(y)
                stack.append(y)
    return seen
