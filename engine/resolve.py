"""Name / class / call resolution over the Repo index, and a whole-package call graph.

Resolved targets are FuncInfo / ClassInfo / Module objects of the repository, or the string
'ext:<dotted>' for third-party names.  Unresolved calls are kept (as '?text') and counted.
"""
from __future__ import annotations

import ast
from typing import Dict, Iterator, List, Optional, Set, Tuple, Union

import networkx as nx

from .index import (AnalysisError, ClassInfo, FuncInfo, FuncNode, Module, Repo,
                    attr_chain, calls_in, unparse, walk_no_nested)

Target = Union[FuncInfo, ClassInfo, Module, str, None]


class Resolver:
    def __init__(self, repo: Repo):
        self.repo = repo
        self._mro_cache: Dict[str, List[ClassInfo]] = {}
        self._subclasses: Optional[Dict[str, List[ClassInfo]]] = None
        self._cg: Optional[nx.DiGraph] = None
        self.unresolved_calls = 0
        self.resolved_calls = 0
        self.external_calls = 0

    # ------------------------------------------------------------------ names
    def resolve_dotted(self, dotted: str, _depth: int = 0) -> Target:
        """Resolve an absolute dotted name to a repo object (following re-exports)."""
        if _depth > 12:
            return None
        mods = self.repo.modules
        if dotted in mods:
            return mods[dotted]
        parts = dotted.split(".")
        for i in range(len(parts) - 1, 0, -1):
            mn = ".".join(parts[:i])
            if mn in mods:
                m = mods[mn]
                rest = parts[i:]
                obj = self._lookup_in_module(m, rest[0], _depth + 1)
                for extra in rest[1:]:
                    if isinstance(obj, ClassInfo):
                        meth = self.find_method(obj, extra)
                        obj = meth if meth is not None else None
                    elif isinstance(obj, Module):
                        obj = self._lookup_in_module(obj, extra, _depth + 1)
                    else:
                        return obj if isinstance(obj, str) else None
                return obj
        if parts[0] != self.repo.package:
            return "ext:" + dotted
        return None

    def _lookup_in_module(self, m: Module, name: str, _depth: int = 0) -> Target:
        if name in m.classes:
            return m.classes[name]
        if name in m.functions:
            return m.functions[name]
        if name in m.imports:
            return self.resolve_dotted(m.imports[name], _depth + 1)
        sub = f"{m.name}.{name}"
        if sub in self.repo.modules:
            return self.repo.modules[sub]
        for star in m.star_imports:
            sm = self.repo.modules.get(star)
            if sm is not None and _depth < 12:
                r = self._lookup_in_module(sm, name, _depth + 1)
                if r is not None:
                    return r
        if name in m.constants:
            return None
        return None

    def resolve_name(self, m: Module, expr: ast.AST) -> Target:
        """Resolve a Name / dotted Attribute expression in module scope."""
        ch = attr_chain(expr)
        if ch is None:
            return None
        obj = self._lookup_in_module(m, ch[0])
        if obj is None and ch[0] in m.imports:
            obj = self.resolve_dotted(m.imports[ch[0]])
        if obj is None:
            return None
        for extra in ch[1:]:
            if isinstance(obj, str):
                obj = obj + "." + extra
            elif isinstance(obj, Module):
                obj = self._lookup_in_module(obj, extra)
            elif isinstance(obj, ClassInfo):
                meth = self.find_method(obj, extra)
                if meth is None:
                    return None
                obj = meth
            else:
                return None
            if obj is None:
                return None
        return obj

    def ext_name(self, m: Module, expr: ast.AST) -> Optional[str]:
        """Fully qualified third-party / stdlib dotted name for expr (np.random.rand -> numpy.random.rand)."""
        ch = attr_chain(expr)
        if ch is None:
            return None
        if ch[0] in m.imports:
            r = self.resolve_name(m, expr)
            if isinstance(r, str):
                return r[4:]
            if r is None:
                return m.imports[ch[0]] + ("." + ".".join(ch[1:]) if len(ch) > 1 else "")
        return None

    # ------------------------------------------------------------------ classes
    def bases(self, c: ClassInfo) -> List[Target]:
        return [self.resolve_name(c.module, b) for b in c.node.bases]

    def mro(self, c: ClassInfo) -> List[ClassInfo]:
        if c.key in self._mro_cache:
            return self._mro_cache[c.key]
        self._mro_cache[c.key] = [c]  # cycle guard
        seqs = []
        repo_bases = [b for b in self.bases(c) if isinstance(b, ClassInfo)]
        for b in repo_bases:
            seqs.append(list(self.mro(b)))
        seqs.append(list(repo_bases))
        out = [c]
        while True:
            seqs = [s for s in seqs if s]
            if not seqs:
                break
            for s in seqs:
                cand = s[0]
                if not any(cand in t[1:] for t in seqs):
                    break
            else:
                cand = seqs[0][0]  # inconsistent hierarchy; fall back
            out.append(cand)
            for s in seqs:
                if s and s[0] == cand:
                    del s[0]
        self._mro_cache[c.key] = out
        return out

    def ext_bases(self, c: ClassInfo) -> List[str]:
        out = []
        for k in self.mro(c):
            for b in k.node.bases:
                r = self.resolve_name(k.module, b)
                if isinstance(r, str):
                    out.append(r[4:])
                elif r is None:
                    out.append("?" + unparse(b))
        return out

    def find_method(self, c: ClassInfo, name: str) -> Optional[FuncInfo]:
        for k in self.mro(c):
            if name in k.methods:
                return k.methods[name]
        return None

    def find_attr(self, c: ClassInfo, name: str):
        for k in self.mro(c):
            if name in k.attrs:
                return k, k.attrs[name]
        return None

    def all_classes(self) -> Iterator[ClassInfo]:
        for m in self.repo.package_modules():
            yield from m.classes.values()

    def subclasses(self, c: ClassInfo) -> List[ClassInfo]:
        if self._subclasses is None:
            d: Dict[str, List[ClassInfo]] = {}
            for k in self.all_classes():
                for anc in self.mro(k)[1:]:
                    d.setdefault(anc.key, []).append(k)
            self._subclasses = d
        return self._subclasses.get(c.key, [])

    def is_subclass(self, c: ClassInfo, anc: ClassInfo) -> bool:
        return anc in self.mro(c)

    # ------------------------------------------------------------------ calls
    def local_types(self, fi: FuncInfo) -> Dict[str, ClassInfo]:
        """name -> class for locals bound by `x = Class(...)` / annotated params, flow-insensitive,
        only when every binding of the name agrees."""
        out: Dict[str, Optional[ClassInfo]] = {}

        def put(n, c):
            if n in out and out[n] is not c:
                out[n] = None
            else:
                out[n] = c

        a = fi.node.args
        for p in a.posonlyargs + a.args + a.kwonlyargs:
            if p.annotation is not None:
                r = self.resolve_name(fi.module, p.annotation) if attr_chain(p.annotation) else None
                if isinstance(r, ClassInfo):
                    put(p.arg, r)
        for n in walk_no_nested(fi.node):
            if isinstance(n, ast.Assign) and len(n.targets) == 1 and isinstance(n.targets[0], ast.Name):
                v = n.value
                c = None
                if isinstance(v, ast.Call):
                    r = self.resolve_name(fi.module, v.func) if attr_chain(v.func) else None
                    if isinstance(r, ClassInfo):
                        c = r
                    elif isinstance(v.func, ast.Name) and v.func.id == "cls" and fi.cls is not None:
                        c = fi.cls
                put(n.targets[0].id, c)
        return {k: v for k, v in out.items() if v is not None}

    def resolve_call(self, fi: FuncInfo, call: ast.Call, ltypes: Optional[Dict[str, ClassInfo]] = None) -> List[Target]:
        """Possible targets of a call: FuncInfo (incl. __init__ for constructors), 'ext:..', or [] if unknown."""
        f = call.func
        m = fi.module
        cls = fi.cls
        # super().m()
        if isinstance(f, ast.Attribute) and isinstance(f.value, ast.Call) and isinstance(f.value.func, ast.Name) and f.value.func.id == "super" and cls is not None:
            for k in self.mro(cls)[1:]:
                if f.attr in k.methods:
                    return [k.methods[f.attr]]
            return ["ext:super()." + f.attr]
        # self.m() / cls.m()
        if isinstance(f, ast.Attribute) and isinstance(f.value, ast.Name) and f.value.id in ("self", "cls") and cls is not None:
            out: List[Target] = []
            t = self.find_method(cls, f.attr)
            if t is not None:
                out.append(t)
            for sc in self.subclasses(cls):
                if f.attr in sc.methods and sc.methods[f.attr] not in out:
                    out.append(sc.methods[f.attr])
            if out:
                return out
            return []
        # cls(...) inside classmethod
        if isinstance(f, ast.Name) and f.id == "cls" and cls is not None:
            out = []
            for k in [cls] + self.subclasses(cls):
                t = self.find_method(k, "__init__")
                if t is not None and t not in out:
                    out.append(t)
            return out
        # nested function in scope
        if isinstance(f, ast.Name):
            p = fi
            while p is not None:
                for g in m.all_funcs:
                    if g.parent_func is p and g.name == f.id:
                        return [g]
                p = p.parent_func
        ch = attr_chain(f)
        if ch is not None:
            # local variable of known class: x.m()
            if ltypes and len(ch) == 2 and ch[0] in ltypes:
                t = self.find_method(ltypes[ch[0]], ch[1])
                if t is not None:
                    return [t]
            r = self.resolve_name(m, f)
            if isinstance(r, FuncInfo):
                return [r]
            if isinstance(r, ClassInfo):
                t = self.find_method(r, "__init__")
                return [t] if t is not None else [r]
            if isinstance(r, str):
                return [r]
        return []

    def call_graph(self) -> nx.DiGraph:
        if self._cg is not None:
            return self._cg
        g = nx.DiGraph()
        for fi in self.repo.all_functions():
            g.add_node(fi.key, fi=fi)
        for fi in list(self.repo.all_functions()):
            lt = self.local_types(fi)
            for c in calls_in(fi.node):
                ts = self.resolve_call(fi, c, lt)
                if not ts:
                    self.unresolved_calls += 1
                    g.add_edge(fi.key, "?" + unparse(c.func)[:60])
                    continue
                for t in ts:
                    if isinstance(t, FuncInfo):
                        self.resolved_calls += 1
                        g.add_edge(fi.key, t.key)
                    elif isinstance(t, ClassInfo):
                        self.resolved_calls += 1
                    else:
                        self.external_calls += 1
            # nested defs are reachable from their parent (closures handed to optimisers etc.)
            for gfi in fi.module.all_funcs:
                if gfi.parent_func is fi:
                    g.add_edge(fi.key, gfi.key)
            # function values passed as arguments / stored: f = some_repo_function
            for n in walk_no_nested(fi.node):
                if isinstance(n, (ast.Name, ast.Attribute)) and isinstance(getattr(n, "ctx", None), ast.Load):
                    par = fi.module.parent(n)
                    if isinstance(par, ast.Call) and par.func is n:
                        continue
                    if isinstance(par, ast.Attribute):
                        continue
                    ch = attr_chain(n)
                    if ch is None or ch[0] in ("self", "cls"):
                        if ch and len(ch) == 2 and fi.cls is not None:
                            t = self.find_method(fi.cls, ch[1])
                            if t is not None and not self._is_property(t):
                                g.add_edge(fi.key, t.key, kind="value")
                            elif t is not None:
                                g.add_edge(fi.key, t.key, kind="property")
                                for sc in self.subclasses(fi.cls):
                                    if ch[1] in sc.methods:
                                        g.add_edge(fi.key, sc.methods[ch[1]].key, kind="property")
                        continue
                    r = self.resolve_name(fi.module, n)
                    if isinstance(r, FuncInfo):
                        g.add_edge(fi.key, r.key, kind="value")
        self._cg = g
        return g

    @staticmethod
    def _is_property(fi: FuncInfo) -> bool:
        return any(d.split(".")[-1] in ("property", "cached_property", "computed_field") or d.endswith(".setter") for d in fi.decorators)

    def conservative_graph(self) -> nx.DiGraph:
        """call_graph plus by-name edges for method calls on receivers of unknown type: `<expr>.m(...)` is linked to every
        repository method named m when m is not a ubiquitous container/pandas method name (over-approximation for inventories)."""
        if getattr(self, "_cgc", None) is not None:
            return self._cgc
        g = self.call_graph().copy()
        by_name: Dict[str, List[FuncInfo]] = {}
        for fi in self.repo.all_functions():
            if fi.cls is not None and fi.parent_func is None:
                by_name.setdefault(fi.name, []).append(fi)
        COMMON = {"get", "append", "copy", "items", "keys", "values", "update", "pop", "add", "index", "count", "sort", "join", "split",
                  "format", "mean", "sum", "min", "max", "astype", "reshape", "replace", "json", "warn", "plot", "transform", "to_dict", "to_json"}
        for fi in list(self.repo.all_functions()):
            lt = self.local_types(fi)
            for c in calls_in(fi.node):
                if isinstance(c.func, ast.Attribute) and not self.resolve_call(fi, c, lt):
                    nm = c.func.attr
                    if nm in by_name and nm not in COMMON and len(by_name[nm]) <= 8:
                        recv = c.func.value
                        if isinstance(recv, ast.Name) and recv.id in ("np", "pd", "sp", "os", "json", "math", "warnings", "nlopt", "scipy"):
                            continue
                        for t in by_name[nm]:
                            g.add_edge(fi.key, t.key, kind="by-name")
                # X(...).m()
                if isinstance(c.func, ast.Attribute) and isinstance(c.func.value, ast.Call):
                    r = self.resolve_call(fi, c.func.value, lt)
                    for t in r:
                        if isinstance(t, FuncInfo) and t.cls is not None and t.name == "__init__":
                            m = self.find_method(t.cls, c.func.attr)
                            if m is not None:
                                g.add_edge(fi.key, m.key)
        self._cgc = g
        return g

    def reachable(self, roots: List[FuncInfo], conservative: bool = False) -> List[FuncInfo]:
        g = self.conservative_graph() if conservative else self.call_graph()
        seen: Set[str] = set()
        stack = [r.key for r in roots]
        while stack:
            k = stack.pop()
            if k in seen or k.startswith("?"):
                continue
            seen.add(k)
            stack.extend(g.successors(k))
        return [g.nodes[k]["fi"] for k in sorted(seen) if "fi" in g.nodes[k]]

    def path(self, src: FuncInfo, dst: FuncInfo) -> Optional[List[str]]:
        g = self.call_graph()
        try:
            return nx.shortest_path(g, src.key, dst.key)
        except (nx.NetworkXNoPath, nx.NodeNotFound):
            return None
