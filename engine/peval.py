"""Partial evaluation of a function's CFG under a concrete binding of a few names.

Tests whose value is determined by literal evaluation (engine.consteval) follow one branch, every
other test forks.  Only assignments `name = <literal-evaluable expr>` update the environment; any
other (re)binding of a tracked name makes it unknown.  No code of the analysed repository is run:
the evaluator understands literals, comparisons, a few pure builtins and str methods only.
"""
from __future__ import annotations

import ast
from typing import Any, Callable, Dict, List, Optional, Set, Tuple

from .cfg import CFG, ENTRY, EXIT, RAISE
from .consteval import ConstEval, NotConstant
from .dataflow import names_stored

UNKNOWN = object()


def _freeze(env: Dict[str, Any]):
    def fz(v):
        try:
            hash(v)
            return v
        except TypeError:
            return repr(v)
    return tuple(sorted((k, fz(v)) for k, v in env.items()))


class Trace:
    def __init__(self):
        self.visits: List[Tuple[object, Dict[str, Any]]] = []  # (node id, env at entry)
        self.ends: List[Tuple[str, Optional[ast.AST], Dict[str, Any]]] = []  # ('EXIT'|'RAISE', last stmt, env)

    def envs_at(self, stmt: ast.AST) -> List[Dict[str, Any]]:
        return [e for n, e in self.visits if n == id(stmt)]


def partial_eval(cfg: CFG, env: Dict[str, Any], start=ENTRY, resolver=None, module=None, limit: int = 20000) -> Trace:
    tr = Trace()
    seen: Set[Tuple[object, Any]] = set()
    stack: List[Tuple[object, Dict[str, Any], Optional[ast.AST]]] = [(start, dict(env), None)]
    steps = 0
    while stack:
        n, e, prev = stack.pop()
        steps += 1
        if steps > limit:
            raise RuntimeError("partial evaluation exceeded its step limit")
        key = (n, _freeze(e))
        if key in seen:
            continue
        seen.add(key)
        if n == EXIT or n == RAISE:
            tr.ends.append((n, prev, e))
            continue
        tr.visits.append((n, e))
        s = cfg.stmt_of.get(n)
        e2 = e
        forced = None
        if s is not None:
            ce = ConstEval(resolver, module, dict(e))
            if isinstance(s, (ast.If, ast.While)):
                try:
                    forced = bool(ce.ev(s.test))
                except (NotConstant, Exception):
                    forced = None
            stored = names_stored(s)
            if stored:
                e2 = dict(e)
                val = UNKNOWN
                if isinstance(s, ast.Assign) and len(s.targets) == 1 and isinstance(s.targets[0], ast.Name):
                    try:
                        val = ce.ev(s.value)
                    except (NotConstant, Exception):
                        val = UNKNOWN
                for nm, _k in stored:
                    if val is UNKNOWN:
                        e2.pop(nm, None)
                    else:
                        e2[nm] = val
        for y in cfg.g.successors(n):
            lab = cfg.g.edges[n, y].get("label")
            if forced is not None and lab is not None and lab != forced:
                continue
            stack.append((y, e2, s if s is not None else prev))
    return tr
