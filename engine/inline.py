"""Helper-transparency pre-pass ("extract function" / "extract method" made invisible to the rules).

The rules are written against the functions the repository has today (spec/known_functions.json, a table of *names*).  When a
later change moves part of such a function into a new private helper, every rule that reads the function's body would lose
sight of the moved statements.  This pass puts them back: a call to a function **whose name is not in the table** and that is
defined in the same module (module level, or a method / staticmethod of the same class) is replaced by the helper's body,

  * parameters substituted by the argument expressions (or bound by an assignment when the argument is not a plain name /
    attribute chain / constant or the helper rebinds the parameter),
  * helper locals renamed when they collide with a name of the caller,
  * `return e` turned into `<target> = e` (assignment call sites, early returns nested into if/else), kept as `return e`
    (tail calls `return helper(...)`), or `e` spliced in place (single-expression helpers at any expression position);
    calls embedded in a larger expression are hoisted into a temporary first.

The transformation is semantics-preserving under the conditions it checks (no recursion, no generators / nonlocal / *args,
returns only inside if/else chains for non-tail sites, helper not overridden elsewhere); when a condition fails the call is
left alone.  A helper whose call sites were all inlined is removed from the tree, so it is not analysed a second time out
of context.  Everything here is AST -> AST; nothing is executed.
"""
from __future__ import annotations

import ast
import copy
from typing import Dict, List, Optional, Set, Tuple

FuncNode = (ast.FunctionDef, ast.AsyncFunctionDef)
_SIMPLE_DECOS = {"staticmethod"}
_TRANSPARENT_DECOS = ("numba.jit", "numba.njit", "jit(", "njit(", "jit", "njit", "functools.lru_cache", "lru_cache")  # compile / cache only: same function


def _names_in(node: ast.AST) -> Set[str]:
    return {n.id for n in ast.walk(node) if isinstance(n, ast.Name)} | {a.arg for a in ast.walk(node) if isinstance(a, ast.arg)}


def _stored_names(fn: ast.AST) -> Set[str]:
    out = set()
    for n in ast.walk(fn):
        if isinstance(n, ast.Name) and isinstance(n.ctx, (ast.Store, ast.Del)):
            out.add(n.id)
    return out


def _walk_no_nested_defs(nodes):
    stack = list(nodes)
    while stack:
        n = stack.pop()
        yield n
        for c in ast.iter_child_nodes(n):
            if isinstance(c, FuncNode + (ast.ClassDef, ast.Lambda)):
                continue
            stack.append(c)


PROTECTED: Set[Tuple[str, str]] = set()  # (module, function name): renamed-back functions, never treated as extracted helpers
REMOVED: Dict[str, List[ast.AST]] = {}  # helpers that were inlined everywhere and taken out of the tree (kept for rules that interpret them)


class _Helper:
    def __init__(self, node, kind: str, cls: Optional[str]):
        self.node = node
        self.kind = kind  # 'function' | 'method' | 'static'
        self.cls = cls
        body = list(node.body)
        if body and isinstance(body[0], ast.Expr) and isinstance(body[0].value, ast.Constant) and isinstance(body[0].value.value, str):
            body = body[1:]
        self.body = body
        a = node.args
        self.params = [x.arg for x in a.posonlyargs + a.args]
        self.kwonly = [x.arg for x in a.kwonlyargs]
        self.defaults: Dict[str, ast.AST] = {}
        pos = a.posonlyargs + a.args
        for p, d in zip(pos[len(pos) - len(a.defaults):], a.defaults):
            self.defaults[p.arg] = d
        for p, d in zip(a.kwonlyargs, a.kw_defaults):
            if d is not None:
                self.defaults[p.arg] = d
        self.single_expr = len(body) == 1 and isinstance(body[0], ast.Return) and body[0].value is not None
        self.inlined_sites = 0
        self.failed_sites = 0

    def eligible(self) -> bool:
        n = self.node
        if isinstance(n, ast.AsyncFunctionDef) or n.args.vararg or n.args.kwarg:
            return False
        decos = [ast.unparse(d) for d in n.decorator_list]
        if any(d not in _SIMPLE_DECOS and not d.startswith(_TRANSPARENT_DECOS) for d in decos):
            return False
        if n.name.startswith("__") and n.name.endswith("__"):
            return False
        for x in _walk_no_nested_defs(self.body):
            if isinstance(x, (ast.Yield, ast.YieldFrom, ast.Await, ast.Nonlocal, ast.Global)):
                return False
        # recursion
        for x in ast.walk(n):
            if isinstance(x, ast.Call):
                f = x.func
                if (isinstance(f, ast.Name) and f.id == n.name) or (isinstance(f, ast.Attribute) and f.attr == n.name):
                    return False
        if any(isinstance(x, FuncNode + (ast.ClassDef,)) for x in ast.walk(n) if x is not n):
            return False
        return True


def _always_exits(stmts: List[ast.stmt]) -> bool:
    if not stmts:
        return False
    s = stmts[-1]
    if isinstance(s, (ast.Return, ast.Raise)):
        return True
    if isinstance(s, ast.If):
        return bool(s.orelse) and _always_exits(s.body) and _always_exits(s.orelse)
    if isinstance(s, ast.Try) and not s.finalbody:
        main = _always_exits(s.body) or (bool(s.orelse) and _always_exits(s.orelse))
        return main and all(_always_exits(h.body) for h in s.handlers)
    return False


def _has_return(stmts) -> bool:
    return any(isinstance(x, ast.Return) for x in _walk_no_nested_defs(stmts))


class _CannotInline(Exception):
    pass


def _eliminate_returns(stmts: List[ast.stmt], mk) -> List[ast.stmt]:
    """Rewrite a statement list so that `return e` becomes mk(e) and nothing after it runs (returns inside if/else only)."""
    out: List[ast.stmt] = []
    for i, s in enumerate(stmts):
        if isinstance(s, ast.Return):
            out.extend(mk(s.value, s))
            return out
        if isinstance(s, ast.If) and _has_return([s]):
            rest = stmts[i + 1:]
            body = list(s.body) + ([] if _always_exits(s.body) else copy.deepcopy(rest))
            orelse = list(s.orelse) + ([] if (s.orelse and _always_exits(s.orelse)) else copy.deepcopy(rest))
            nb = _eliminate_returns(body, mk) or [ast.copy_location(ast.Pass(), s)]
            no = _eliminate_returns(orelse, mk)
            new = ast.copy_location(ast.If(test=s.test, body=nb, orelse=no), s)
            out.append(new)
            return out
        if isinstance(s, ast.Try) and _has_return([s]):
            if _has_return(s.finalbody):
                raise _CannotInline("return inside finally")
            rest = stmts[i + 1:]
            body_ret = _has_return(s.body)
            if body_ret and not _always_exits(s.body):
                raise _CannotInline("conditional return inside a try body")
            if body_ret:
                nb = _eliminate_returns(list(s.body), mk) or [ast.copy_location(ast.Pass(), s)]
                no: List[ast.stmt] = []
            else:
                nb = list(s.body)
                no = _eliminate_returns(list(s.orelse) + copy.deepcopy(rest), mk)
            nh = []
            for h in s.handlers:
                hb = list(h.body) + ([] if _always_exits(h.body) else copy.deepcopy(rest))
                nh.append(ast.copy_location(ast.ExceptHandler(type=h.type, name=h.name, body=_eliminate_returns(hb, mk) or [ast.copy_location(ast.Pass(), h)]), h))
            out.append(ast.copy_location(ast.Try(body=nb, handlers=nh, orelse=no, finalbody=list(s.finalbody)), s))
            return out
        if _has_return([s]):
            raise _CannotInline("return inside a loop / with")
        out.append(s)
    return out


class _Renamer(ast.NodeTransformer):
    def __init__(self, subst: Dict[str, ast.AST], rename: Dict[str, str]):
        self.subst = subst
        self.rename = rename

    def visit_Name(self, n: ast.Name):
        if n.id in self.subst and isinstance(n.ctx, ast.Load):
            return ast.copy_location(copy.deepcopy(self.subst[n.id]), n)
        if n.id in self.rename:
            return ast.copy_location(ast.Name(id=self.rename[n.id], ctx=n.ctx), n)
        return n

    def visit_arg(self, a: ast.arg):
        return a


def _is_simple_arg(e: ast.AST) -> bool:
    if isinstance(e, ast.Constant):
        return True
    if isinstance(e, ast.Name):
        return True
    if isinstance(e, ast.Attribute):
        return _is_simple_arg(e.value)
    return False


def _read_once_outside_loops(stmt: ast.AST, name: str) -> bool:
    """Is `name` read exactly once in the expression, and not inside a lambda or comprehension (where it would be evaluated repeatedly or later)?"""
    reads = [n for n in ast.walk(stmt) if isinstance(n, ast.Name) and n.id == name and isinstance(n.ctx, ast.Load)]
    if len(reads) != 1:
        return False
    for scope in ast.walk(stmt):
        if isinstance(scope, (ast.Lambda, ast.ListComp, ast.SetComp, ast.DictComp, ast.GeneratorExp)):
            if any(n is reads[0] for n in ast.walk(scope)):
                return False
    return True


class ModuleInliner:
    def __init__(self, tree: ast.Module, modname: str, known: Set[str]):
        self.tree = tree
        self.modname = modname
        self.known = known
        self.helpers: Dict[Tuple[Optional[str], str], _Helper] = {}
        self.imported: Dict[str, _Helper] = {}  # local alias -> helper defined in another module of the package
        self.foreign_bases: Dict[str, Tuple["ModuleInliner", str]] = {}  # local alias of a class imported from a sibling module -> (its inliner, its name)
        self.constants: Dict[str, ast.AST] = {}  # unknown module-level literal constants (own and imported aliases)
        self.tmp = 0
        self.log: List[str] = []

    # ------------------------------------------------------------------ discovery
    def discover(self) -> None:
        method_names: Dict[str, int] = {}
        for st in self.tree.body:
            if isinstance(st, ast.ClassDef):
                for m in st.body:
                    if isinstance(m, FuncNode):
                        method_names[m.name] = method_names.get(m.name, 0) + 1
        for st in self.tree.body:
            if isinstance(st, FuncNode):
                if f"{self.modname}:{st.name}" not in self.known and (self.modname, st.name) not in PROTECTED:
                    h = _Helper(st, "function", None)
                    if h.eligible():
                        self.helpers[(None, st.name)] = h
            elif isinstance(st, ast.ClassDef):
                for m in st.body:
                    if isinstance(m, FuncNode) and f"{self.modname}:{st.name}.{m.name}" not in self.known and method_names.get(m.name) == 1:
                        decos = [ast.unparse(d) for d in m.decorator_list]
                        h = _Helper(m, "static" if "staticmethod" in decos else "method", st.name)
                        if h.eligible():
                            self.helpers[(st.name, m.name)] = h

    # ------------------------------------------------------------------ call resolution
    def _resolve(self, call: ast.Call, cls: Optional[str], self_name: Optional[str]) -> Optional[Tuple[_Helper, Optional[ast.AST]]]:
        f = call.func
        if isinstance(f, ast.Name) and (None, f.id) in self.helpers:
            return self.helpers[(None, f.id)], None
        if isinstance(f, ast.Name) and f.id in self.imported:
            return self.imported[f.id], None
        owner = self._owner_of(cls, f.attr) if isinstance(f, ast.Attribute) and cls is not None else None
        if owner is not None:
            h = owner[0].helpers[(owner[1], f.attr)]
            if isinstance(f.value, ast.Name) and f.value.id in (self_name, cls, "cls"):
                if h.kind == "static":
                    return h, None
                if f.value.id == self_name:
                    return h, f.value
            elif isinstance(f.value, ast.Name) and h.kind == "method":
                # <obj>.helper(...) inside the helper's own class (e.g. on the instance a classmethod is building): the helper's
                # name is new and unique in the module, so the receiver is an instance of this class
                return h, f.value
            elif isinstance(f.value, ast.Name) and h.kind == "static":
                return h, None
        return None

    def _owner_of(self, cls: str, name: str):
        """The class of this module, `cls` or one of its bases (first in left-to-right depth-first order), that defines the unknown
        helper method `name`; None when a class on the way defines a *known* method of that name (an override the rules know)."""
        bases: Dict[str, List[str]] = {}
        defined: Dict[str, Set[str]] = {}
        for st in self.tree.body:
            if isinstance(st, ast.ClassDef):
                bases[st.name] = [b.id for b in st.bases if isinstance(b, ast.Name)]
                defined[st.name] = {m.name for m in st.body if isinstance(m, FuncNode)}
        seen: Set[str] = set()
        todo = [cls]
        while todo:
            c = todo.pop(0)
            if c in seen:
                continue
            seen.add(c)
            if c not in bases:
                # a base class imported from a sibling module of the package: continue the search there
                fb = self.foreign_bases.get(c)
                if fb is not None:
                    r = fb[0]._owner_of(fb[1], name)
                    if r is not None:
                        return r
                continue
            if (c, name) in self.helpers:
                return (self, c)
            if name in defined.get(c, ()):
                return None
            todo = bases[c] + todo
        return None

    # ------------------------------------------------------------------ binding
    def _bind(self, h: _Helper, call: ast.Call, recv: Optional[ast.AST], caller_names: Set[str], targets=None):
        if any(isinstance(a, ast.Starred) for a in call.args) or any(k.arg is None for k in call.keywords):
            raise _CannotInline("star arguments")
        params = list(h.params)
        args: Dict[str, ast.AST] = {}
        if h.kind == "method":
            if not params:
                raise _CannotInline("method without self")
            args[params[0]] = recv
            params = params[1:]
        if len(call.args) > len(params):
            raise _CannotInline("too many arguments")
        for p, a in zip(params, call.args):
            args[p] = a
        for k in call.keywords:
            if k.arg in args or k.arg not in params + h.kwonly:
                raise _CannotInline("keyword mismatch")
            args[k.arg] = k.value
        for p in params + h.kwonly:
            if p not in args:
                if p not in h.defaults:
                    raise _CannotInline("missing argument")
                args[p] = h.defaults[p]
        stored = _stored_names(h.node)
        subst: Dict[str, ast.AST] = {}
        prologue: List[ast.stmt] = []
        rename: Dict[str, str] = {}
        local_names = stored - set(args)
        arg_names = set()
        for a in args.values():
            arg_names |= _names_in(a)
        # returned locals take the names of the call-site targets (x, y = helper(..) with `return a, b` -> a->x, b->y)
        aligned: Dict[str, str] = {}
        if targets is not None and len(targets) == 1:
            t = targets[0]
            tnames = [t.id] if isinstance(t, ast.Name) else ([e.id for e in t.elts] if isinstance(t, (ast.Tuple, ast.List)) and all(isinstance(e, ast.Name) for e in t.elts) else None)
            rets = [x for x in _walk_no_nested_defs(h.body) if isinstance(x, ast.Return)]
            if tnames and rets:
                ok = True
                cand: Dict[str, str] = {}
                for r in rets:
                    v = r.value
                    vn = [v] if isinstance(v, ast.Name) else (list(v.elts) if isinstance(v, ast.Tuple) else None)
                    if vn is None or len(vn) != len(tnames):
                        ok = False
                        break
                    for e, tn in zip(vn, tnames):
                        if isinstance(e, ast.Name) and e.id in local_names:
                            if cand.get(e.id, tn) != tn:
                                ok = False
                            cand[e.id] = tn
                if ok and len(set(cand.values())) == len(cand):
                    for ln, tn in cand.items():
                        if tn in arg_names or (tn in local_names and tn != ln) or tn in args:
                            continue
                        aligned[ln] = tn
        for ln in sorted(local_names):
            if ln in aligned:
                if aligned[ln] != ln:
                    rename[ln] = aligned[ln]
                continue
            if ln in caller_names or ln in arg_names or ln in aligned.values():
                rename[ln] = f"{ln}__{h.node.name.strip('_')}"
        for p, a in args.items():
            if p not in stored and (_is_simple_arg(a) or (h.single_expr and _read_once_outside_loops(h.body[-1], p))):
                subst[p] = a
            else:
                tgt = p
                if isinstance(a, ast.Name) and a.id == p:
                    continue  # x = x
                if p in caller_names or p in arg_names:
                    tgt = f"{p}__{h.node.name.strip('_')}"
                    rename[p] = tgt
                prologue.append(ast.copy_location(ast.Assign(targets=[ast.Name(id=tgt, ctx=ast.Store())], value=copy.deepcopy(a)), call))
        ren = _Renamer(subst, rename)
        body = [ren.visit(copy.deepcopy(s)) for s in h.body]
        for s in prologue + body:
            ast.fix_missing_locations(s)
        return prologue, body

    # ------------------------------------------------------------------ statement rewriting
    def _inline_stmt(self, s: ast.stmt, cls: Optional[str], self_name: Optional[str], caller_names: Set[str]) -> Optional[List[ast.stmt]]:
        call = None
        form = None
        if isinstance(s, ast.Return) and isinstance(s.value, ast.Call):
            call, form = s.value, "tail"
        elif isinstance(s, ast.Assign) and isinstance(s.value, ast.Call):
            call, form = s.value, "assign"
        elif isinstance(s, ast.AnnAssign) and isinstance(s.value, ast.Call) and isinstance(s.target, ast.Name):
            call, form = s.value, "assign"
        elif isinstance(s, ast.Expr) and isinstance(s.value, ast.Call):
            call, form = s.value, "expr"
        if call is None:
            return None
        r = self._resolve(call, cls, self_name)
        if r is None:
            return None
        h, recv = r
        if h.single_expr:
            return None  # handled at expression level
        try:
            tg = (s.targets if isinstance(s, ast.Assign) else [s.target]) if form == "assign" else None
            prologue, body = self._bind(h, call, recv, caller_names, tg)
            if form == "tail":
                new = prologue + body
                if not _always_exits(body):
                    new.append(ast.copy_location(ast.Return(value=None), s))
            elif form == "assign":
                targets = s.targets if isinstance(s, ast.Assign) else [s.target]

                def mk(v, at):
                    val = v if v is not None else ast.Constant(value=None)
                    if len(targets) == 1 and ast.dump(targets[0]).replace("Store()", "Load()") == ast.dump(val):
                        return []  # x = x  /  a, b = (a, b)
                    t0 = targets[0]
                    if len(targets) == 1 and isinstance(t0, (ast.Tuple, ast.List)) and isinstance(val, ast.Call) and isinstance(val.func, ast.Name):
                        # a, b = Rec(x=.., y=..) with Rec a NamedTuple / record class of this module: unpacking reads the fields in order
                        cnode = next((c_ for c_ in self.tree.body if isinstance(c_, ast.ClassDef) and c_.name == val.func.id), None)
                        if cnode is not None and not any(k_.arg is None for k_ in val.keywords) and not any(isinstance(a_, ast.Starred) for a_ in val.args):
                            from .pyinterp import record_class
                            rc = record_class(cnode)
                            if rc is not None and rc.is_tuple and len(rc.fields) == len(t0.elts):
                                given = dict(zip(rc.fields, val.args))
                                given.update({k_.arg: k_.value for k_ in val.keywords})
                                if all(f_ in given for f_ in rc.fields):
                                    val = ast.copy_location(ast.Tuple(elts=[given[f_] for f_ in rc.fields], ctx=ast.Load()), val)
                    if len(targets) == 1 and isinstance(t0, (ast.Tuple, ast.List)) and isinstance(val, ast.Tuple) and len(t0.elts) == len(val.elts) \
                            and all(isinstance(e, ast.Name) for e in t0.elts):
                        # a, b = (x, y)  ->  a = x; b = y   when no later element reads an earlier target
                        names = [e.id for e in t0.elts]
                        safe = all(not any(isinstance(n, ast.Name) and n.id in names[:j] for n in ast.walk(val.elts[j])) for j in range(1, len(names)))
                        if safe:
                            out_ = []
                            for tn, ve in zip(t0.elts, val.elts):
                                if isinstance(ve, ast.Name) and ve.id == tn.id:
                                    continue
                                out_.append(ast.copy_location(ast.Assign(targets=[ast.Name(id=tn.id, ctx=ast.Store())], value=ve), at))
                            return out_
                    return [ast.copy_location(ast.Assign(targets=copy.deepcopy(targets), value=val), at)]
                new = prologue + _eliminate_returns(body, mk)
                if not _always_exits(body):
                    new.extend(mk(None, s))
            else:
                def mk2(v, at):
                    if v is None or isinstance(v, (ast.Name, ast.Constant)):
                        return []
                    return [ast.copy_location(ast.Expr(value=v), at)]
                new = prologue + _eliminate_returns(body, mk2)
            for n in new:
                ast.fix_missing_locations(n)
            h.inlined_sites += 1
            self.log.append(f"{self.modname}: inlined {h.cls + '.' if h.cls else ''}{h.node.name} at line {getattr(s, 'lineno', '?')} ({form})")
            return new or [ast.copy_location(ast.Pass(), s)]
        except _CannotInline as e:
            h.failed_sites += 1
            self.log.append(f"{self.modname}: cannot inline {h.node.name} at line {getattr(s, 'lineno', '?')}: {e}")
            return None

    def _hoist_embedded(self, s: ast.stmt, cls, self_name) -> List[ast.stmt]:
        """Calls to multi-statement helpers embedded in a larger expression of a simple statement are hoisted into temporaries."""
        if not isinstance(s, (ast.Assign, ast.AugAssign, ast.AnnAssign, ast.Expr, ast.Return, ast.Raise)):
            return []
        pre: List[ast.stmt] = []
        parents: Dict[int, ast.AST] = {}
        for n in ast.walk(s):
            for c in ast.iter_child_nodes(n):
                parents[id(c)] = n
        top_call = s.value if isinstance(s, (ast.Assign, ast.AnnAssign, ast.Expr, ast.Return)) else None
        for n in list(ast.walk(s)):
            if not isinstance(n, ast.Call) or n is top_call:
                continue
            r = self._resolve(n, cls, self_name)
            if r is None or r[0].single_expr:
                continue
            # not under a conditional / lazy construct
            p = parents.get(id(n))
            lazy = False
            while p is not None and p is not s:
                if isinstance(p, (ast.IfExp, ast.BoolOp, ast.Lambda, ast.ListComp, ast.SetComp, ast.DictComp, ast.GeneratorExp)):
                    lazy = True
                    break
                p = parents.get(id(p))
            if lazy:
                continue
            self.tmp += 1
            tname = f"_inl_{r[0].node.name.strip('_')}_{self.tmp}"
            pre.append(ast.copy_location(ast.Assign(targets=[ast.Name(id=tname, ctx=ast.Store())], value=copy.deepcopy(n)), s))
            par = parents[id(n)]
            for field, val in ast.iter_fields(par):
                if val is n:
                    setattr(par, field, ast.copy_location(ast.Name(id=tname, ctx=ast.Load()), n))
                elif isinstance(val, list):
                    for i, x in enumerate(val):
                        if x is n:
                            val[i] = ast.copy_location(ast.Name(id=tname, ctx=ast.Load()), n)
        for x in pre:
            ast.fix_missing_locations(x)
        return pre

    def _inline_exprs(self, node: ast.AST, cls, self_name, caller_names) -> None:
        """Single-expression helpers are spliced in place, anywhere."""
        inl = self

        class T(ast.NodeTransformer):
            def visit_Call(self, c: ast.Call):
                self.generic_visit(c)
                r = inl._resolve(c, cls, self_name)
                if r is None or not r[0].single_expr:
                    return c
                h, recv = r
                try:
                    prologue, body = inl._bind(h, c, recv, caller_names)
                    if prologue:
                        raise _CannotInline("argument needs a binding inside an expression")
                    h.inlined_sites += 1
                    inl.log.append(f"{inl.modname}: spliced {h.node.name} at line {getattr(c, 'lineno', '?')}")
                    return ast.copy_location(body[0].value, c)
                except _CannotInline:
                    h.failed_sites += 1
                    return c

            def visit_FunctionDef(self, n):
                return n

            visit_AsyncFunctionDef = visit_FunctionDef
            visit_ClassDef = visit_FunctionDef

        for field, val in ast.iter_fields(node):
            if isinstance(val, ast.AST) and isinstance(val, ast.expr):
                setattr(node, field, T().visit(val))
            elif isinstance(val, list):
                for i, x in enumerate(val):
                    if isinstance(x, ast.expr):
                        val[i] = T().visit(x)
                    elif isinstance(x, ast.keyword):
                        x.value = T().visit(x.value)
                    elif isinstance(x, (ast.withitem,)):
                        x.context_expr = T().visit(x.context_expr)

    def _process_block(self, stmts: List[ast.stmt], cls, self_name, caller_names, depth=0) -> List[ast.stmt]:
        out: List[ast.stmt] = []
        for s in stmts:
            if isinstance(s, FuncNode + (ast.ClassDef,)):
                out.append(s)
                continue
            if depth < 4:
                pre = self._hoist_embedded(s, cls, self_name)
                if pre:
                    out.extend(self._process_block(pre, cls, self_name, caller_names, depth + 1))
            self._inline_exprs(s, cls, self_name, caller_names)
            rep = self._inline_stmt(s, cls, self_name, caller_names) if depth < 4 else None
            if rep is not None:
                caller_names |= set().union(*[_names_in(x) for x in rep]) if rep else set()
                out.extend(self._process_block(rep, cls, self_name, caller_names, depth + 1))
                continue
            for field in ("body", "orelse", "finalbody"):
                if hasattr(s, field) and isinstance(getattr(s, field), list) and getattr(s, field) and isinstance(getattr(s, field)[0], ast.stmt):
                    setattr(s, field, self._process_block(getattr(s, field), cls, self_name, caller_names, depth))
            if isinstance(s, ast.Try):
                for hd in s.handlers:
                    hd.body = self._process_block(hd.body, cls, self_name, caller_names, depth)
            if hasattr(ast, "Match") and isinstance(s, getattr(ast, "Match")):
                for c in s.cases:
                    c.body = self._process_block(c.body, cls, self_name, caller_names, depth)
            out.append(s)
        return out

    def _process_function(self, fn, cls: Optional[str], qual: Optional[str] = None) -> None:
        self_name = None
        if cls is not None and fn.args.args and "staticmethod" not in [ast.unparse(d) for d in fn.decorator_list]:
            self_name = fn.args.args[0].arg
        qual = qual or (f"{cls}.{fn.name}" if cls else fn.name)
        # nested helper functions (closures) the rules do not know: visible by bare name inside this function
        scoped: List[Tuple[Tuple[Optional[str], str], _Helper]] = []
        for sub in ast.walk(fn):
            if sub is not fn and isinstance(sub, FuncNode) and f"{self.modname}:{qual}.<locals>.{sub.name}" not in self.known and (None, sub.name) not in self.helpers:
                h = _Helper(sub, "function", None)
                # a closure may read names of the enclosing function; it must not rebind them (no nonlocal: checked by eligible())
                if h.eligible():
                    scoped.append(((None, sub.name), h))
        for k, h in scoped:
            self.helpers[k] = h
        caller_names = _names_in(fn)
        fn.body = self._process_block(fn.body, cls, self_name, caller_names)
        for sub in ast.walk(fn):
            if sub is not fn and isinstance(sub, FuncNode):
                sub.body = self._process_block(sub.body, cls, self_name, _names_in(sub) | caller_names)
        for k, h in scoped:
            del self.helpers[k]
            if h.inlined_sites:
                refs = sum(1 for n in ast.walk(fn) if isinstance(n, ast.Name) and n.id == k[1] and isinstance(n.ctx, ast.Load))
                if refs == 0:
                    self._drop_nested(fn, h.node)
                    REMOVED.setdefault(self.modname, []).append(h.node)
                    self.log.append(f"{self.modname}: removed inlined closure {qual}.<locals>.{k[1]}")

    @staticmethod
    def _drop_nested(fn, node) -> None:
        for parent in ast.walk(fn):
            for field in ("body", "orelse", "finalbody"):
                lst = getattr(parent, field, None)
                if isinstance(lst, list) and node in lst:
                    lst[:] = [x for x in lst if x is not node] or [ast.Pass()]

    # ------------------------------------------------------------------ driver
    def run(self, discovered: bool = False) -> ast.Module:
        if not discovered:
            self.discover()
        self._fold_constants()
        for _round in range(3):  # helpers calling helpers
            before = sum(h.inlined_sites for h in self.helpers.values())
            for st in self.tree.body:
                if isinstance(st, FuncNode):
                    self._process_function(st, None)
                elif isinstance(st, ast.ClassDef):
                    for m in st.body:
                        if isinstance(m, FuncNode):
                            self._process_function(m, st.name)
            if sum(h.inlined_sites for h in self.helpers.values()) == before:
                break
        # drop helpers that are no longer referenced
        for (cls, name), h in self.helpers.items():
            if h.inlined_sites == 0:
                continue
            refs = 0
            for n in ast.walk(self.tree):
                if isinstance(n, ast.Name) and n.id == name and isinstance(n.ctx, ast.Load):
                    refs += 1
                elif isinstance(n, ast.Attribute) and n.attr == name:
                    refs += 1
            # references inside the helper's own (now unused) definition do not count: eligible() excluded recursion
            if refs == 0:
                if cls is None:
                    self.tree.body = [s for s in self.tree.body if s is not h.node]
                else:
                    for st in self.tree.body:
                        if isinstance(st, ast.ClassDef) and st.name == cls:
                            st.body = [s for s in st.body if s is not h.node] or [ast.Pass()]
                self.log.append(f"{self.modname}: removed inlined helper {cls + '.' if cls else ''}{name}")
                REMOVED.setdefault(self.modname, []).append(h.node)
        if any(h.inlined_sites for h in self.helpers.values()) or any(h.inlined_sites for h in self.imported.values()):
            # "…{}…".format("x") left behind by a helper called with literal arguments (possibly through a once-assigned literal local)
            for _pass in range(3):
                _FoldLiteralStrings().visit(self.tree)
                if not _propagate_literal_string_locals(self.tree):
                    break
        n_named = propagate_named_conditions(self.tree)
        if n_named:
            self.log.append(f"{self.modname}: substituted {n_named} named condition(s) / mask(s)")
        ast.fix_missing_locations(self.tree)
        return self.tree


def _propagate_literal_string_locals(tree: ast.AST) -> bool:
    """Inside each function: a local name bound exactly once, by `name = "literal"`, and never rebound in any other way, is replaced by
    the literal where it is read.  Returns whether anything was replaced."""
    changed = False
    for fn in [n for n in ast.walk(tree) if isinstance(n, FuncNode)]:
        stores: Dict[str, int] = {}
        lit: Dict[str, ast.Constant] = {}
        params = {a.arg for a in fn.args.posonlyargs + fn.args.args + fn.args.kwonlyargs}
        if fn.args.vararg:
            params.add(fn.args.vararg.arg)
        if fn.args.kwarg:
            params.add(fn.args.kwarg.arg)
        for n in _walk_no_nested_defs(fn.body):
            if isinstance(n, ast.Name) and isinstance(n.ctx, (ast.Store, ast.Del)):
                stores[n.id] = stores.get(n.id, 0) + 1
            if isinstance(n, (ast.Global, ast.Nonlocal)):
                for nm in n.names:
                    stores[nm] = stores.get(nm, 0) + 2
            if isinstance(n, ast.Assign) and len(n.targets) == 1 and isinstance(n.targets[0], ast.Name) and isinstance(n.value, ast.Constant) and isinstance(n.value.value, str):
                lit[n.targets[0].id] = n.value
        # nested functions may rebind through nonlocal: be conservative when the name is stored anywhere below
        for sub in ast.walk(fn):
            if sub is not fn and isinstance(sub, FuncNode):
                for n in ast.walk(sub):
                    if isinstance(n, ast.Nonlocal):
                        for nm in n.names:
                            stores[nm] = stores.get(nm, 0) + 2
        ok = {k: v for k, v in lit.items() if stores.get(k) == 1 and k not in params}
        if not ok:
            continue

        class R(ast.NodeTransformer):
            def visit_Name(self, n):
                nonlocal changed
                if isinstance(n.ctx, ast.Load) and n.id in ok:
                    changed = True
                    return ast.copy_location(ast.Constant(value=ok[n.id].value), n)
                return n

            def visit_FunctionDef(self, n):
                return n if n is not fn else self.generic_visit(n)

            visit_AsyncFunctionDef = visit_FunctionDef
            visit_Lambda = lambda self, n: n
        R().visit(fn)
    return changed


class _FoldLiteralStrings(ast.NodeTransformer):
    """String expressions all of whose operands are literals become the literal: str.format / % / + / f-strings / implicit joins."""

    @staticmethod
    def _lit(n):
        return isinstance(n, ast.Constant) and isinstance(n.value, (str, int, float, bool)) and not isinstance(n.value, bytes)

    def visit_Call(self, c: ast.Call):
        self.generic_visit(c)
        f = c.func
        if isinstance(f, ast.Attribute) and f.attr == "format" and isinstance(f.value, ast.Constant) and isinstance(f.value.value, str) \
                and all(self._lit(a) for a in c.args) and all(k.arg and self._lit(k.value) for k in c.keywords):
            try:
                return ast.copy_location(ast.Constant(value=f.value.value.format(*[a.value for a in c.args], **{k.arg: k.value.value for k in c.keywords})), c)
            except (IndexError, KeyError, ValueError):
                return c
        return c

    def visit_BinOp(self, b: ast.BinOp):
        self.generic_visit(b)
        if isinstance(b.op, ast.Add) and isinstance(b.left, ast.Constant) and isinstance(b.right, ast.Constant) and isinstance(b.left.value, str) and isinstance(b.right.value, str):
            return ast.copy_location(ast.Constant(value=b.left.value + b.right.value), b)
        if isinstance(b.op, ast.Mod) and isinstance(b.left, ast.Constant) and isinstance(b.left.value, str):
            r = b.right
            vals = None
            if self._lit(r):
                vals = r.value
            elif isinstance(r, ast.Tuple) and all(self._lit(e) for e in r.elts):
                vals = tuple(e.value for e in r.elts)
            if vals is not None:
                try:
                    return ast.copy_location(ast.Constant(value=b.left.value % vals), b)
                except (TypeError, ValueError):
                    return b
        return b

    def visit_JoinedStr(self, j: ast.JoinedStr):
        self.generic_visit(j)
        out = ""
        for p in j.values:
            if isinstance(p, ast.Constant) and isinstance(p.value, str):
                out += p.value
            elif isinstance(p, ast.FormattedValue) and p.conversion == -1 and p.format_spec is None and isinstance(p.value, ast.Constant) and isinstance(p.value.value, str):
                out += p.value.value
            else:
                return j
        return ast.copy_location(ast.Constant(value=out), j)


# ------------------------------------------------------------------------------------------------ named conditions / masks
_OBSERVER_METHODS = {"isna", "notna", "isnull", "notnull", "isin", "any", "all", "startswith", "endswith", "duplicated", "between", "eq", "ne", "lt", "le", "gt", "ge"}
_OBSERVER_FUNCS = {"str", "len", "isinstance", "bool", "np.isfinite", "np.isnan", "np.logical_not", "np.logical_and", "np.logical_or", "numpy.isfinite", "numpy.isnan",
                   "pd.isna", "pd.isnull", "pd.notna", "pd.notnull"}
_MUTATORS = {"append", "extend", "insert", "update", "pop", "clear", "remove", "sort", "setdefault", "drop", "dropna", "fillna", "rename", "reset_index", "set_index", "sort_index",
             "sort_values", "add", "discard"}


def _is_plain(e: ast.AST) -> bool:
    """A read of a name / attribute chain / constant-keyed item: no call, no arithmetic."""
    if isinstance(e, (ast.Name, ast.Constant)):
        return True
    if isinstance(e, ast.Attribute):
        return _is_plain(e.value)
    if isinstance(e, ast.Subscript):
        return _is_plain(e.value) and (_is_plain(e.slice) or (isinstance(e.slice, (ast.Tuple, ast.List)) and all(_is_plain(x) for x in e.slice.elts)))
    return False


def _is_observer(e: ast.AST, top: bool = True) -> bool:
    """A condition / mask / type tuple: comparisons, boolean combinations, membership tests and calls of pure observers on plain reads."""
    if isinstance(e, ast.Compare):
        return all(_is_observer(x, False) or _is_plain(x) for x in [e.left] + list(e.comparators))
    if isinstance(e, ast.BoolOp):
        return all(_is_observer(x, False) or _is_plain(x) for x in e.values)
    if isinstance(e, ast.UnaryOp) and isinstance(e.op, (ast.Not, ast.Invert)):
        return _is_observer(e.operand, False) or _is_plain(e.operand)
    if isinstance(e, ast.BinOp) and isinstance(e.op, (ast.BitAnd, ast.BitOr)):
        return all(_is_observer(x, False) for x in (e.left, e.right))
    if isinstance(e, ast.Call) and not any(k.arg is None for k in e.keywords):
        args = list(e.args) + [k.value for k in e.keywords]
        okargs = all(_is_plain(a) or _is_observer(a, False) or (isinstance(a, (ast.Tuple, ast.List)) and all(_is_plain(x) for x in a.elts)) for a in args)
        if isinstance(e.func, ast.Attribute) and e.func.attr in _OBSERVER_METHODS and (_is_plain(e.func.value) or _is_observer(e.func.value, False)):
            return okargs
        if ast.unparse(e.func) in _OBSERVER_FUNCS:
            return okargs
        return False
    if top and isinstance(e, ast.Tuple) and e.elts and all(isinstance(x, ast.Attribute) and _is_plain(x) for x in e.elts):
        return True     # a tuple of classes handed to isinstance
    if isinstance(e, ast.Attribute) and e.attr == "empty":
        # emptiness of a frame / of its complete rows: `x.empty`, `x.dropna().empty`
        b = e.value
        if _is_plain(b) and not isinstance(b, (ast.Name, ast.Constant)):
            return True
        if isinstance(b, ast.Call) and isinstance(b.func, ast.Attribute) and b.func.attr == "dropna" and not b.args and not b.keywords and _is_plain(b.func.value):
            return True
    return False


def _paths(e: ast.AST) -> Set[str]:
    """Attribute / item paths read by an expression, as text ('df', 'self.tz', "rows['temperature']")."""
    out: Set[str] = set()
    for n in ast.walk(e):
        if isinstance(n, (ast.Name, ast.Attribute, ast.Subscript)) and _is_plain(n) and not isinstance(n, ast.Constant):
            out.add(ast.unparse(n))
    return out


def _interferes(stmt: ast.AST, roots: Set[str], paths: Set[str]) -> bool:
    """Does the statement (re)bind or mutate something the expression reads?"""
    for n in ast.walk(stmt):
        tgts: List[ast.AST] = []
        if isinstance(n, ast.Assign):
            tgts = list(n.targets)
        elif isinstance(n, (ast.AugAssign, ast.AnnAssign)):
            tgts = [n.target]
        elif isinstance(n, (ast.For, ast.AsyncFor)):
            tgts = [n.target]
        elif isinstance(n, ast.Delete):
            tgts = list(n.targets)
        elif isinstance(n, (ast.With, ast.AsyncWith)):
            tgts = [i.optional_vars for i in n.items if i.optional_vars is not None]
        elif isinstance(n, ast.NamedExpr):
            tgts = [n.target]
        flat: List[ast.AST] = []
        while tgts:
            t = tgts.pop()
            if isinstance(t, (ast.Tuple, ast.List)):
                tgts.extend(t.elts)
            elif isinstance(t, ast.Starred):
                tgts.append(t.value)
            else:
                flat.append(t)
        for t in flat:
            base = t
            while isinstance(base, (ast.Attribute, ast.Subscript)):
                base = base.value
            if not isinstance(base, ast.Name) or base.id not in roots:
                continue
            if isinstance(t, ast.Name):
                return True
            tt = ast.unparse(t.value if isinstance(t, ast.Subscript) else t)
            tt = tt[:-4] if tt.endswith((".loc", ".iloc")) else (tt[:-3] if tt.endswith(".at") else tt)
            if any(p_ == tt or p_.startswith(tt + ".") or p_.startswith(tt + "[") or tt.startswith(p_ + ".") or tt.startswith(p_ + "[") for p_ in paths):
                return True
        if isinstance(n, ast.Call) and isinstance(n.func, ast.Attribute) and n.func.attr in _MUTATORS:
            base = n.func.value
            while isinstance(base, (ast.Attribute, ast.Subscript)):
                base = base.value
            if isinstance(base, ast.Name) and base.id in roots:
                inplace = any(k.arg == "inplace" and isinstance(k.value, ast.Constant) and k.value.value is True for k in n.keywords)
                if n.func.attr in ("append", "extend", "insert", "update", "pop", "clear", "remove", "sort", "setdefault", "add", "discard") or inplace:
                    return True
    return False


def propagate_named_conditions(tree: ast.AST) -> int:
    """Inside each function: `name = <condition / mask / tuple of classes>` bound exactly once, read only after it in the same block (or
    deeper), with nothing the expression reads re-bound or mutated before its last read, is substituted where it is read and the
    naming statement is dropped.  Giving a condition a name (`is_kept = x.index.isin(y.index)`; `df.loc[~is_kept]`) is the most common
    harmless edit; rules then see the same expression either way.  Returns the number of names substituted."""
    count = 0
    for fn in [n for n in ast.walk(tree) if isinstance(n, FuncNode)]:
        params = {a.arg for a in fn.args.posonlyargs + fn.args.args + fn.args.kwonlyargs}
        if fn.args.vararg:
            params.add(fn.args.vararg.arg)
        if fn.args.kwarg:
            params.add(fn.args.kwarg.arg)
        stores: Dict[str, int] = {}
        for n in _walk_no_nested_defs(fn.body):
            if isinstance(n, ast.Name) and isinstance(n.ctx, (ast.Store, ast.Del)):
                stores[n.id] = stores.get(n.id, 0) + 1
            if isinstance(n, (ast.Global, ast.Nonlocal)):
                for nm in n.names:
                    stores[nm] = stores.get(nm, 0) + 2
        nested_reads: Set[str] = set()
        for sub in ast.walk(fn):
            if sub is not fn and isinstance(sub, (ast.FunctionDef, ast.AsyncFunctionDef, ast.Lambda, ast.ClassDef)):
                for n in ast.walk(sub):
                    if isinstance(n, ast.Name):
                        nested_reads.add(n.id)
        changed = True
        while changed:
            changed = False
            for parent in list(_walk_no_nested_defs([fn])):
                for field in ("body", "orelse", "finalbody"):
                    block = getattr(parent, field, None)
                    if not isinstance(block, list):
                        continue
                    for i, st in enumerate(block):
                        if not (isinstance(st, ast.Assign) and len(st.targets) == 1 and isinstance(st.targets[0], ast.Name)):
                            continue
                        name = st.targets[0].id
                        if stores.get(name) != 1 or name in params or name in nested_reads or name.startswith("__") or not _is_observer(st.value):
                            continue
                        rest = block[i + 1:]
                        reads_rest = [n for s_ in rest for n in ast.walk(s_) if isinstance(n, ast.Name) and n.id == name and isinstance(n.ctx, ast.Load)]
                        reads_all = [n for n in ast.walk(fn) if isinstance(n, ast.Name) and n.id == name and isinstance(n.ctx, ast.Load)]
                        if not reads_rest or len(reads_rest) != len(reads_all) or len(reads_all) > 4:
                            continue
                        if any(name == x for x in _names_in(st.value)):
                            continue
                        # nothing the expression reads is re-bound or mutated up to the last statement that reads the name
                        last = max(j for j, s_ in enumerate(rest) if any(n in reads_rest for n in ast.walk(s_)))
                        paths = _paths(st.value)
                        roots = {p_.split(".")[0].split("[")[0] for p_ in paths}
                        span = rest[:last + 1]
                        bad = False
                        for j, s_ in enumerate(span):
                            reads_here = any(n in reads_rest for n in ast.walk(s_))
                            if _interferes(s_, roots, paths):
                                # a statement may both read the name and store through it (`rows.loc[mask, c] = v`): fine if it is the last reader
                                if not (reads_here and j == last and not isinstance(s_, (ast.For, ast.While, ast.If, ast.With, ast.Try))):
                                    bad = True
                                    break
                        # a loop around the reads re-evaluates the expression each time: only if nothing in the loop interferes (checked above)
                        if bad:
                            continue
                        val = st.value

                        class R(ast.NodeTransformer):
                            def visit_Name(self, n):
                                if isinstance(n.ctx, ast.Load) and n.id == name:
                                    import copy as _copy
                                    return ast.copy_location(_copy.deepcopy(val), n)
                                return n
                        for k_ in range(len(rest)):
                            rest[k_] = R().visit(rest[k_])
                        block[:] = block[:i] + rest
                        stores[name] = 0
                        count += 1
                        changed = True
                        break
                    if changed:
                        break
                if changed:
                    break
    if count:
        ast.fix_missing_locations(tree)
    return count


def positional_calls(trees: Dict[str, ast.Module]) -> int:
    """Calls of module-level functions of the package (uniquely named) get their leading keyword arguments turned into positional ones, in
    the callee's parameter order: `as_freq(x, freq="D")` reads `as_freq(x, "D")`.  Passing an argument by name or by position is the same
    call; rules that describe a call then see one spelling."""
    sigs: Dict[str, Optional[List[str]]] = {}
    for mod, tree in trees.items():
        for st in tree.body:
            if isinstance(st, FuncNode):
                a = st.args
                if a.vararg or a.posonlyargs:
                    params = None
                else:
                    params = [x.arg for x in a.args]
                # two functions of one name are fine when their parameter lists agree (a legacy copy); otherwise the name is left alone
                sigs[st.name] = params if (st.name not in sigs or sigs[st.name] == params) else None
    n = 0
    for mod, tree in trees.items():
        for c in ast.walk(tree):
            if not isinstance(c, ast.Call) or not c.keywords or any(isinstance(x, ast.Starred) for x in c.args) or any(k.arg is None for k in c.keywords):
                continue
            name = c.func.id if isinstance(c.func, ast.Name) else None
            params = sigs.get(name) if name else None
            if not params:
                continue
            kw = {k.arg: k for k in c.keywords}
            i = len(c.args)
            moved = False
            while i < len(params) and params[i] in kw:
                c.args.append(kw.pop(params[i]).value)
                i += 1
                moved = True
            if moved:
                c.keywords = [k for k in c.keywords if k.arg in kw]
                n += 1
    return n


def inline_unknown_helpers(tree: ast.Module, modname: str, known: Set[str]) -> Tuple[ast.Module, List[str]]:
    mi = ModuleInliner(tree, modname, known)
    return mi.run(), mi.log


# ---------------------------------------------------------------------------------------------- constants and package driver
def _is_literal(e: ast.AST) -> bool:
    try:
        ast.literal_eval(e)
        return True
    except (ValueError, TypeError, SyntaxError, MemoryError, RecursionError):
        pass
    # small arithmetic of literals (1.0 / 24, 60 * 60, -1) and tuples/lists of such
    if isinstance(e, ast.BinOp) and isinstance(e.op, (ast.Add, ast.Sub, ast.Mult, ast.Div, ast.FloorDiv, ast.Pow, ast.Mod)):
        return _is_literal(e.left) and _is_literal(e.right)
    if isinstance(e, ast.UnaryOp) and isinstance(e.op, (ast.USub, ast.UAdd)):
        return _is_literal(e.operand)
    if isinstance(e, (ast.Tuple, ast.List, ast.Set)):
        # elements may also be plain references to module-level names (classes, functions): `_TYPES = (BaselineData, ReportingData)`
        return all(_is_literal(x) or _is_simple_arg(x) for x in e.elts)
    if isinstance(e, ast.Dict):
        return all(k is not None and _is_literal(k) and _is_literal(v) for k, v in zip(e.keys, e.values))
    if isinstance(e, ast.Call) and not e.keywords and ast.unparse(e.func) in _PURE_CALLS:
        return all(_is_literal(a) for a in e.args)
    return False


_PURE_CALLS = {"frozenset", "tuple", "set", "list", "dict", "ceil", "floor", "math.ceil", "math.floor", "int", "float", "round", "abs", "min", "max", "len", "sorted", "sum", "str",
               "np.ceil", "np.floor", "np.sqrt", "math.sqrt", "np.log", "math.log", "np.exp", "math.exp", "timedelta", "datetime.timedelta", "pd.Timedelta"}


def module_constants(tree: ast.Module, modname: str, known_constants: Set[str]) -> Dict[str, ast.AST]:
    """Module-level `NAME = <literal>` bindings whose name the rules do not know (spec table), bound exactly once."""
    counts: Dict[str, int] = {}
    vals: Dict[str, ast.AST] = {}
    cand: Dict[str, ast.AST] = {}
    for n in ast.walk(tree):
        if isinstance(n, ast.Name) and isinstance(n.ctx, (ast.Store, ast.Del)):
            counts[n.id] = counts.get(n.id, 0) + 1
        elif isinstance(n, ast.arg):
            counts[n.arg] = counts.get(n.arg, 0) + 1
        elif isinstance(n, (ast.Global, ast.Nonlocal)):
            for x in n.names:
                counts[x] = counts.get(x, 0) + 2
    for st in tree.body:
        tgt = val = None
        if isinstance(st, ast.Assign) and len(st.targets) == 1 and isinstance(st.targets[0], ast.Name):
            tgt, val = st.targets[0].id, st.value
        elif isinstance(st, ast.AnnAssign) and isinstance(st.target, ast.Name) and st.value is not None:
            tgt, val = st.target.id, st.value
        if tgt is None or f"{modname}:{tgt}" in known_constants or counts.get(tgt, 0) != 1 or tgt.startswith("__"):
            continue
        cand[tgt] = val
    # a constant may be computed from other new constants (MIN = ceil(0.9 * MAX)): fold those in first, then test for literal-ness
    changed = True
    while changed:
        changed = False
        for tgt, val in list(cand.items()):
            if tgt in vals:
                continue
            v2 = _Renamer({k: v for k, v in vals.items()}, {}).visit(copy.deepcopy(val)) if vals else val
            # a read-only view of a literal table reads like the table: MappingProxyType({...})
            if isinstance(v2, ast.Call) and not v2.keywords and len(v2.args) == 1 and ast.unparse(v2.func) in ("MappingProxyType", "types.MappingProxyType") and isinstance(v2.args[0], ast.Dict):
                v2 = v2.args[0]
            if _is_literal(v2):
                vals[tgt] = v2
                changed = True
    return vals


def _fold_constants(self) -> None:
    consts = self.constants
    mi = self

    class Fold(ast.NodeTransformer):
        def visit_Name(self, n: ast.Name):
            if isinstance(n.ctx, ast.Load) and n.id in consts:
                mi.log.append(f"{mi.modname}: folded constant {n.id} at line {getattr(n, 'lineno', '?')}")
                return ast.copy_location(copy.deepcopy(consts[n.id]), n)
            return n

        def visit_Call(self, c: ast.Call):
            self.generic_visit(c)
            # list(<tuple literal>) / tuple(<list literal>) -> the literal of that type
            if isinstance(c.func, ast.Name) and c.func.id in ("list", "tuple") and len(c.args) == 1 and not c.keywords and isinstance(c.args[0], (ast.Tuple, ast.List)):
                cls = ast.List if c.func.id == "list" else ast.Tuple
                return ast.copy_location(cls(elts=c.args[0].elts, ctx=ast.Load()), c)
            # f(**{"a": 1, "b": 2}) -> f(a=1, b=2)
            new_kw = []
            for k in c.keywords:
                if k.arg is None and isinstance(k.value, ast.Dict) and all(isinstance(x, ast.Constant) and isinstance(x.value, str) for x in k.value.keys):
                    for kk, vv in zip(k.value.keys, k.value.values):
                        new_kw.append(ast.keyword(arg=kk.value, value=vv))
                else:
                    new_kw.append(k)
            c.keywords = new_kw
            return c

        def visit_For(self, f: ast.For):
            self.generic_visit(f)
            # for x in (<a few literals>): <simple body>  ->  unrolled
            # for a, b in zip((<literals>), xs): <simple body>  ->  unrolled with a := literal, b := xs[i]
            if isinstance(f.iter, ast.Call) and isinstance(f.iter.func, ast.Name) and f.iter.func.id == "zip" and not f.iter.keywords and not f.orelse \
                    and isinstance(f.target, ast.Tuple) and len(f.target.elts) == len(f.iter.args) and all(isinstance(t, ast.Name) for t in f.target.elts) \
                    and any(isinstance(a, (ast.Tuple, ast.List)) and all(isinstance(x, ast.Constant) for x in a.elts) for a in f.iter.args) \
                    and all(isinstance(a, ast.Name) or (isinstance(a, (ast.Tuple, ast.List)) and all(isinstance(x, ast.Constant) for x in a.elts)) for a in f.iter.args):
                lits = [a for a in f.iter.args if isinstance(a, (ast.Tuple, ast.List))]
                n = min(len(a.elts) for a in lits)
                tnames = [t.id for t in f.target.elts]
                stored = {x.id for b in f.body for x in ast.walk(b) if isinstance(x, ast.Name) and isinstance(x.ctx, ast.Store)}
                if 0 < n <= 8 and len({len(a.elts) for a in lits}) == 1 and not (stored & set(tnames)) \
                        and not any(isinstance(x, (ast.Break, ast.Continue)) for b in f.body for x in ast.walk(b)):
                    out = []
                    for i in range(n):
                        sub = {}
                        for tn, a in zip(tnames, f.iter.args):
                            sub[tn] = a.elts[i] if isinstance(a, (ast.Tuple, ast.List)) else ast.Subscript(value=ast.Name(id=a.id, ctx=ast.Load()), slice=ast.Constant(value=i), ctx=ast.Load())
                        ren = _Renamer(sub, {})
                        out.extend(ast.copy_location(ren.visit(copy.deepcopy(b)), b) for b in f.body)
                    for o_ in out:
                        ast.fix_missing_locations(o_)
                    return out
            if isinstance(f.iter, (ast.Tuple, ast.List)) and 0 < len(f.iter.elts) <= 8 and isinstance(f.target, ast.Name) and not f.orelse \
                    and all(isinstance(x, ast.Constant) for x in f.iter.elts) \
                    and not any(isinstance(x, (ast.Break, ast.Continue)) or (isinstance(x, ast.Name) and x.id == f.target.id and isinstance(x.ctx, ast.Store)) for b in f.body for x in ast.walk(b)):
                out = []
                for el in f.iter.elts:
                    ren = _Renamer({f.target.id: el}, {})
                    out.extend(ast.copy_location(ren.visit(copy.deepcopy(b)), b) for b in f.body)
                return out
            return f

    own = {st for st in self.tree.body if (isinstance(st, ast.Assign) and len(st.targets) == 1 and isinstance(st.targets[0], ast.Name) and st.targets[0].id in consts)
           or (isinstance(st, ast.AnnAssign) and isinstance(st.target, ast.Name) and st.target.id in consts)}
    new_body = []
    for st in self.tree.body:
        if st in own:
            continue  # the binding itself disappears with its uses
        r = Fold().visit(st)
        if isinstance(r, list):
            new_body.extend(r)
        elif r is not None:
            new_body.append(r)
    self.tree.body = new_body


ModuleInliner._fold_constants = _fold_constants


def _fingerprint(fn) -> Set[str]:
    return {(n.func.attr if isinstance(n.func, ast.Attribute) else getattr(n.func, "id", "?")) for n in ast.walk(fn) if isinstance(n, ast.Call)}


def undo_renames(trees: Dict[str, ast.Module], known_functions: Set[str], signatures: Dict[str, dict]) -> List[str]:
    """A known private function that is missing while exactly one *unknown* function of the same scope (module level, or the same
    class) has its parameter list (or, failing that, clearly the same set of callees) was renamed: give it its old name back
    (definition and every reference in the package), so that the rules find their anchor and the function is not mistaken for an
    extracted helper."""
    log: List[str] = []
    renames: Dict[str, str] = {}  # new name -> old name (names must be unique package-wide to be rewritten safely)
    for mod, tree in trees.items():
        scopes: List[Tuple[Optional[str], List[ast.AST]]] = [(None, [s for s in tree.body if isinstance(s, FuncNode)])]
        for st in tree.body:
            if isinstance(st, ast.ClassDef):
                scopes.append((st.name, [m for m in st.body if isinstance(m, FuncNode)]))
        for cls, fns in scopes:
            prefix = f"{mod}:{cls}." if cls else f"{mod}:"
            present = {f.name for f in fns}
            known_here = {k[len(prefix):] for k in known_functions if k.startswith(prefix) and "." not in k[len(prefix):] and "<locals>" not in k}
            missing = sorted(known_here - present)
            unknown = [f for f in fns if f.name not in known_here and not (f.name.startswith("__") and f.name.endswith("__"))]
            for k in missing:
                if not k.startswith("_"):
                    continue  # public names are API: a vanished public function is a real change
                sig = signatures.get(prefix + k)
                if not sig:
                    continue
                cands = [u for u in unknown if [a.arg for a in u.args.posonlyargs + u.args.args + u.args.kwonlyargs] == sig["params"]]
                if len(cands) != 1:
                    want = set(sig.get("calls", []))
                    scored = []
                    for u in unknown:
                        if len(u.args.posonlyargs + u.args.args + u.args.kwonlyargs) != len(sig["params"]):
                            continue  # a different arity is a different function (e.g. two helpers merged into one with a selector)
                        got = _fingerprint(u)
                        if want and got:
                            j = len(want & got) / len(want | got)
                            if j >= 0.6:
                                scored.append((j, u))
                    scored.sort(key=lambda t: -t[0])
                    cands = [scored[0][1]] if scored and (len(scored) == 1 or scored[0][0] - scored[1][0] >= 0.2) else []
                if not cands and cls is not None:
                    # a method that never used `self` turned into a module-level function: same parameters without the receiver
                    mod_unknown = [f for f in tree.body if isinstance(f, FuncNode) and f"{mod}:{f.name}" not in known_functions and f.name not in renames]
                    cands = [u for u in mod_unknown if [a.arg for a in u.args.posonlyargs + u.args.args + u.args.kwonlyargs] == sig["params"][1:]]
                    if len(cands) == 1:
                        log.append(f"{mod}: method `{cls}.{k}` became the module-level function `{cands[0].name}`")
                        PROTECTED.add((mod, k))
                if len(cands) == 1 and cands[0].name not in renames:
                    renames[cands[0].name] = k
                    unknown = [u for u in unknown if u is not cands[0]]
                    log.append(f"{mod}: `{(cls + '.') if cls else ''}{cands[0].name}` is the renamed `{k}`")
    if not renames:
        return log
    # the new names must not be used for anything else in the package
    counts: Dict[str, int] = {}
    for tree in trees.values():
        for n in ast.walk(tree):
            if isinstance(n, FuncNode) and n.name in renames:
                counts[n.name] = counts.get(n.name, 0) + 1
    safe = {new: old for new, old in renames.items() if counts.get(new, 0) == 1}
    for tree in trees.values():
        for n in ast.walk(tree):
            if isinstance(n, FuncNode) and n.name in safe:
                n.name = safe[n.name]
            elif isinstance(n, ast.Name) and n.id in safe:
                n.id = safe[n.id]
            elif isinstance(n, ast.Attribute) and n.attr in safe:
                n.attr = safe[n.attr]
            elif isinstance(n, ast.alias) and n.name in safe:
                n.name = safe[n.name]
    return log


def inline_package(trees: Dict[str, ast.Module], packages: Dict[str, bool], known_functions: Set[str], known_constants: Set[str], signatures: Optional[Dict[str, dict]] = None) -> List[str]:
    """Run the transparency pre-pass over all modules of the package at once (helpers and constants imported from a sibling
    module are followed through `from X import name [as alias]`).  `packages[mod]` says whether mod is a package (__init__)."""
    log: List[str] = []
    REMOVED.clear()
    PROTECTED.clear()
    if signatures:
        log.extend(undo_renames(trees, known_functions, signatures))
    inl: Dict[str, ModuleInliner] = {}
    consts: Dict[str, Dict[str, ast.AST]] = {}
    for mod, tree in trees.items():
        mi = ModuleInliner(tree, mod, known_functions)
        mi.discover()
        inl[mod] = mi
        consts[mod] = module_constants(tree, mod, known_constants)
    for mod, tree in trees.items():
        mi = inl[mod]
        mi.constants.update(consts[mod])
        for st in ast.walk(tree):
            if isinstance(st, ast.ImportFrom):
                base = st.module or ""
                if st.level:
                    parts = mod.split(".")
                    if not packages.get(mod, False):
                        parts = parts[:-1]
                    if st.level > 1:
                        parts = parts[: len(parts) - (st.level - 1)]
                    base = ".".join(parts + ([st.module] if st.module else []))
                src = inl.get(base)
                if src is None:
                    continue
                for a in st.names:
                    alias = a.asname or a.name
                    if (None, a.name) in src.helpers:
                        mi.imported[alias] = src.helpers[(None, a.name)]
                    if any(isinstance(x, ast.ClassDef) and x.name == a.name for x in src.tree.body):
                        mi.foreign_bases[alias] = (src, a.name)
                    if a.name in consts.get(base, {}):
                        mi.constants[alias] = consts[base][a.name]
    for mod in trees:
        mi = inl[mod]
        trees[mod] = mi.run(discovered=True)
        log.extend(mi.log)
    n_pos = positional_calls(trees)
    if n_pos:
        log.append(f"package: {n_pos} call(s) of package functions normalised to positional arguments")
    # imported names of removed helpers / folded constants: drop them from the import statements
    gone: Dict[str, Set[str]] = {}
    for mod, mi in inl.items():
        present = {st.name for st in trees[mod].body if isinstance(st, FuncNode)}
        g = {name for (cls, name), h in mi.helpers.items() if cls is None and name not in present}
        g |= set(consts.get(mod, {}))
        if g:
            gone[mod] = g
    return log


def inline_calls_into(fn: ast.AST, helpers: List[ast.AST], modname: str = "<local>") -> ast.AST:
    """A copy of function `fn` with every call to one of `helpers` (module-level function definitions) inlined — lets a rule look at a
    caller and a private callee as one body, whatever the callee's signature is."""
    mod = ast.Module(body=[copy.deepcopy(h) for h in helpers] + [copy.deepcopy(fn)], type_ignores=[])
    mi = ModuleInliner(mod, modname, {f"{modname}:{fn.name}"})
    saved = set(PROTECTED)
    mi.discover()
    out = mi.run(discovered=True)
    PROTECTED.clear()
    PROTECTED.update(saved)
    res = [s for s in out.body if isinstance(s, FuncNode) and s.name == fn.name]
    ast.fix_missing_locations(res[0])
    return res[0]
