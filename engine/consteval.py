"""Evaluation of *literal* expressions: constants, containers, arithmetic on constants, a few pure
builtins (ceil/floor/range/len/min/max/abs/round/int/float/str/list/tuple/sorted/dict/set),
module-level constants and Enum members of the analysed repository.  Never calls repo code."""
from __future__ import annotations

import ast
import math
import operator
from typing import Any, Callable, Dict, Optional

from .index import ClassInfo, Module, unparse


class NotConstant(Exception):
    pass


_BIN = {
    ast.Add: operator.add, ast.Sub: operator.sub, ast.Mult: operator.mul, ast.Div: operator.truediv,
    ast.FloorDiv: operator.floordiv, ast.Mod: operator.mod, ast.Pow: operator.pow,
    ast.BitOr: operator.or_, ast.BitAnd: operator.and_, ast.BitXor: operator.xor,
    ast.LShift: operator.lshift, ast.RShift: operator.rshift,
}
_UN = {ast.USub: operator.neg, ast.UAdd: operator.pos, ast.Not: operator.not_, ast.Invert: operator.invert}
_CMP = {
    ast.Eq: operator.eq, ast.NotEq: operator.ne, ast.Lt: operator.lt, ast.LtE: operator.le,
    ast.Gt: operator.gt, ast.GtE: operator.ge, ast.In: lambda a, b: a in b, ast.NotIn: lambda a, b: a not in b,
    ast.Is: operator.is_, ast.IsNot: operator.is_not,
}
_PURE: Dict[str, Callable] = {
    "ceil": math.ceil, "floor": math.floor, "math.ceil": math.ceil, "math.floor": math.floor,
    "np.ceil": math.ceil, "np.floor": math.floor, "range": range, "len": len, "min": min, "max": max,
    "abs": abs, "round": round, "int": int, "float": float, "str": str, "list": list, "tuple": tuple,
    "sorted": sorted, "dict": dict, "set": set, "frozenset": frozenset, "sum": sum, "bool": bool,
    "np.sqrt": math.sqrt, "math.sqrt": math.sqrt,
}
_NAMED = {"np.inf": math.inf, "math.inf": math.inf, "np.nan": math.nan, "math.nan": math.nan, "np.pi": math.pi,
          "math.pi": math.pi, "None": None, "True": True, "False": False}


class ConstEval:
    def __init__(self, resolver=None, module: Optional[Module] = None, env: Optional[Dict[str, Any]] = None,
                 name_hook: Optional[Callable[[ast.AST], Any]] = None):
        self.resolver = resolver
        self.module = module
        self.env = env or {}
        self.name_hook = name_hook
        self._depth = 0

    def ev(self, e: ast.AST) -> Any:
        self._depth += 1
        try:
            if self._depth > 60:
                raise NotConstant("recursion")
            return self._ev(e)
        finally:
            self._depth -= 1

    def _ev(self, e: ast.AST) -> Any:
        if isinstance(e, ast.Constant):
            return e.value
        if isinstance(e, (ast.List, ast.Tuple, ast.Set)):
            vals = []
            for x in e.elts:
                if isinstance(x, ast.Starred):
                    vals.extend(self.ev(x.value))
                else:
                    vals.append(self.ev(x))
            return vals if isinstance(e, ast.List) else (tuple(vals) if isinstance(e, ast.Tuple) else set(vals))
        if isinstance(e, ast.Dict):
            out = {}
            for k, v in zip(e.keys, e.values):
                if k is None:
                    out.update(self.ev(v))
                else:
                    out[self.ev(k)] = self.ev(v)
            return out
        if isinstance(e, ast.BinOp) and type(e.op) in _BIN:
            return _BIN[type(e.op)](self.ev(e.left), self.ev(e.right))
        if isinstance(e, ast.UnaryOp) and type(e.op) in _UN:
            return _UN[type(e.op)](self.ev(e.operand))
        if isinstance(e, ast.BoolOp):
            vals = [self.ev(v) for v in e.values]
            if isinstance(e.op, ast.And):
                r = True
                for v in vals:
                    r = v
                    if not v:
                        break
                return r
            r = False
            for v in vals:
                r = v
                if v:
                    break
            return r
        if isinstance(e, ast.Compare):
            l = self.ev(e.left)
            for op, c in zip(e.ops, e.comparators):
                r = self.ev(c)
                if not _CMP[type(op)](l, r):
                    return False
                l = r
            return True
        if isinstance(e, ast.IfExp):
            return self.ev(e.body) if self.ev(e.test) else self.ev(e.orelse)
        if isinstance(e, ast.Subscript):
            v = self.ev(e.value)
            s = e.slice
            if isinstance(s, ast.Slice):
                lo = self.ev(s.lower) if s.lower else None
                hi = self.ev(s.upper) if s.upper else None
                st = self.ev(s.step) if s.step else None
                return v[lo:hi:st]
            return v[self.ev(s)]
        if isinstance(e, ast.JoinedStr):
            out = ""
            for p in e.values:
                if isinstance(p, ast.Constant):
                    out += str(p.value)
                elif isinstance(p, ast.FormattedValue) and p.format_spec is None and p.conversion == -1:
                    out += str(self.ev(p.value))
                else:
                    raise NotConstant(unparse(e))
            return out
        if isinstance(e, (ast.ListComp, ast.SetComp, ast.GeneratorExp, ast.DictComp)):
            return self._comp(e)
        if isinstance(e, ast.Call):
            fn = unparse(e.func)
            if fn in _PURE and not any(k.arg is None for k in e.keywords):
                args = [self.ev(a) for a in e.args]
                kw = {k.arg: self.ev(k.value) for k in e.keywords}
                try:
                    return _PURE[fn](*args, **kw)
                except NotConstant:
                    raise
                except Exception as ex:  # bad literal arithmetic
                    raise NotConstant(f"{unparse(e)}: {ex}")
            # method calls on constant receivers: "a_b".split("_"), d.keys(), s.lower() ...
            if isinstance(e.func, ast.Attribute) and e.func.attr in ("split", "lower", "upper", "strip", "keys", "values", "items", "join", "replace", "format", "get", "copy", "union", "intersection", "difference", "startswith", "endswith", "index", "count"):
                recv = self.ev(e.func.value)
                if isinstance(recv, (str, dict, list, tuple, set, frozenset)):
                    args = [self.ev(a) for a in e.args]
                    r = getattr(recv, e.func.attr)(*args)
                    if e.func.attr in ("keys", "values", "items"):
                        r = list(r)
                    return r
            raise NotConstant(unparse(e))
        if isinstance(e, (ast.Name, ast.Attribute)):
            txt = unparse(e)
            if isinstance(e, ast.Name) and e.id in self.env:
                return self.env[e.id]
            if txt in _NAMED:
                return _NAMED[txt]
            if self.name_hook is not None:
                r = self.name_hook(e)
                if r is not NotConstant:
                    return r
            return self._resolve_named(e)
        raise NotConstant(unparse(e))

    def _comp(self, e):
        gens = e.generators
        results = []

        def rec(i):
            if i == len(gens):
                if isinstance(e, ast.DictComp):
                    results.append((self.ev(e.key), self.ev(e.value)))
                else:
                    results.append(self.ev(e.elt))
                return
            g = gens[i]
            for item in self.ev(g.iter):
                self._bind(g.target, item)
                if all(self.ev(c) for c in g.ifs):
                    rec(i + 1)

        saved = dict(self.env)
        try:
            rec(0)
        finally:
            self.env = saved
        if isinstance(e, ast.DictComp):
            return dict(results)
        if isinstance(e, ast.SetComp):
            return set(results)
        return list(results)

    def _bind(self, target, value):
        if isinstance(target, ast.Name):
            self.env[target.id] = value
        elif isinstance(target, (ast.Tuple, ast.List)):
            vals = list(value)
            if len(vals) != len(target.elts):
                raise NotConstant("unpack")
            for t, v in zip(target.elts, vals):
                self._bind(t, v)
        else:
            raise NotConstant("bind")

    def _resolve_named(self, e: ast.AST) -> Any:
        """Module-level constant or Enum member of the repo."""
        if self.resolver is None or self.module is None:
            raise NotConstant(unparse(e))
        from .index import attr_chain
        ch = attr_chain(e)
        if ch is None:
            raise NotConstant(unparse(e))
        m = self.module
        # module constant in this module
        if len(ch) == 1 and ch[0] in m.constants:
            return ConstEval(self.resolver, m, {}, self.name_hook).ev(m.constants[ch[0]])
        # imported constant
        if len(ch) == 1 and ch[0] in m.imports:
            dotted = m.imports[ch[0]]
            mod, _, nm = dotted.rpartition(".")
            tm = self.resolver.repo.modules.get(mod)
            if tm is not None and nm in tm.constants:
                return ConstEval(self.resolver, tm, {}, self.name_hook).ev(tm.constants[nm])
        # Enum member: Class.MEMBER (.value)
        tail_value = False
        if ch[-1] == "value" and len(ch) >= 3:
            ch = ch[:-1]
            tail_value = True
        if len(ch) >= 2:
            import ast as _a
            base = _a.parse(".".join(ch[:-1]), mode="eval").body
            r = self.resolver.resolve_name(m, base)
            if isinstance(r, ClassInfo):
                hit = self.resolver.find_attr(r, ch[-1])
                if hit is not None:
                    k, (_ann, val, _st) = hit
                    if val is not None:
                        v = ConstEval(self.resolver, k.module, {}, self.name_hook).ev(val)
                        return v
            elif r is not None and hasattr(r, "constants") and ch[-1] in r.constants:
                return ConstEval(self.resolver, r, {}, self.name_hook).ev(r.constants[ch[-1]])
        raise NotConstant(unparse(e))


def literal(e: ast.AST, resolver=None, module=None, env=None) -> Any:
    return ConstEval(resolver, module, env).ev(e)


def try_literal(e: ast.AST, resolver=None, module=None, env=None, default=NotConstant) -> Any:
    try:
        return ConstEval(resolver, module, env).ev(e)
    except (NotConstant, KeyError, IndexError, TypeError, ValueError, ZeroDivisionError):
        return default
