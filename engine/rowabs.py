"""One-row abstraction of pandas Series code: a Series is represented by its value at one generic row (a number, NaN, or ABSENT
when the row was filtered out), a boolean mask by one bool, an Index by 'row present?'.  Feature code that touches series through
comparisons, boolean-mask selection, arithmetic, reindex(fill_value), clip / where / mask / fillna, np.where / minimum / maximum and
Series(scalar, index=...) is interpreted from its AST (engine/pyinterp) with these stand-ins; anything else raises Unsupported.
Nothing of the analysed repository is executed: the interpreter and the stand-ins below are the only semantics used."""
from __future__ import annotations

import math
from typing import Any

from .pyinterp import Stub, Unsupported

ABSENT = "<absent>"


def _isnan(x):
    return isinstance(x, float) and math.isnan(x)


def _num(x) -> bool:
    return isinstance(x, (int, float)) and not isinstance(x, bool)


class Mask(Stub):
    def __init__(self, b: bool):
        self.b = bool(b)

    def __and__(self, o): return Mask(self.b and _mb(o))
    __rand__ = __and__
    def __or__(self, o): return Mask(self.b or _mb(o))
    __ror__ = __or__
    def __invert__(self): return Mask(not self.b)
    def __xor__(self, o): return Mask(self.b != _mb(o))

    def __bool__(self):
        raise Unsupported("truth value of a boolean series")

    def __repr__(self):
        return f"Mask({self.b})"


def _mb(o) -> bool:
    if isinstance(o, Mask):
        return o.b
    if isinstance(o, bool):
        return o
    raise Unsupported("boolean operation between a mask and " + type(o).__name__)


class Idx(Stub):
    def __init__(self, present: bool):
        self.present = bool(present)

    def __getitem__(self, k):
        if isinstance(k, Mask):
            return Idx(self.present and k.b)
        raise Unsupported("index[...] with a key that is not a mask")


class Ser(Stub):
    def __init__(self, v: Any):
        self.v = v  # float | ABSENT ; NaN is float('nan')

    def present(self):
        return self.v is not ABSENT

    def __repr__(self):
        return f"Ser({self.v})"

    # ---- arithmetic
    def _arith(self, o, f, swap=False):
        if isinstance(o, Ser):
            a, b = (o.v, self.v) if swap else (self.v, o.v)
            # pandas aligns on the union of the indexes: a row missing on one side gives NaN
            if a is ABSENT and b is ABSENT:
                return Ser(ABSENT)
            if a is ABSENT or b is ABSENT:
                return Ser(math.nan)
            return Ser(f(a, b))
        if not _num(o):
            raise Unsupported("arithmetic between a series and " + type(o).__name__)
        if self.v is ABSENT:
            return Ser(ABSENT)
        return Ser(f(o, self.v) if swap else f(self.v, o))

    def __add__(self, o): return self._arith(o, lambda a, b: a + b)
    def __radd__(self, o): return self._arith(o, lambda a, b: a + b, True)
    def __sub__(self, o): return self._arith(o, lambda a, b: a - b)
    def __rsub__(self, o): return self._arith(o, lambda a, b: a - b, True)
    def __mul__(self, o): return self._arith(o, lambda a, b: a * b)
    def __rmul__(self, o): return self._arith(o, lambda a, b: a * b, True)
    def __truediv__(self, o): return self._arith(o, lambda a, b: a / b if b != 0 else (math.nan if a == 0 or _isnan(a) else math.copysign(math.inf, a)))
    def __neg__(self): return Ser(ABSENT if self.v is ABSENT else -self.v)

    # ---- comparisons (NaN compares False, True for !=, as in pandas)
    def _cmp(self, o, f):
        ov = o.v if isinstance(o, Ser) else o
        if self.v is ABSENT or ov is ABSENT:
            raise Unsupported("comparison on a filtered series")
        if not _num(ov) or not _num(self.v):
            raise Unsupported("comparison between a series and " + type(o).__name__)
        return Mask(f(self.v, ov))

    def __gt__(self, o): return self._cmp(o, lambda a, b: a > b)
    def __ge__(self, o): return self._cmp(o, lambda a, b: a >= b)
    def __lt__(self, o): return self._cmp(o, lambda a, b: a < b)
    def __le__(self, o): return self._cmp(o, lambda a, b: a <= b)
    def __eq__(self, o): return self._cmp(o, lambda a, b: a == b)
    def __ne__(self, o): return self._cmp(o, lambda a, b: a != b)
    __hash__ = None  # type: ignore

    # ---- selection / alignment
    def __getitem__(self, k):
        if isinstance(k, Mask):
            return Ser(self.v if (k.b and self.present()) else ABSENT)
        raise Unsupported("series[...] with a key that is not a mask")

    @property
    def loc(self):
        return self

    @property
    def index(self):
        return Idx(self.present())

    def reindex(self, index=None, fill_value=math.nan, **k):
        if k or not isinstance(index, Idx):
            raise Unsupported("reindex() other than reindex(<index>, fill_value=...)")
        if not index.present:
            return Ser(ABSENT)
        return Ser(self.v if self.present() else fill_value)

    def notnull(self): return Mask(self.present() and not _isnan(self.v))
    notna = notnull
    def isnull(self): return Mask(self.present() and _isnan(self.v))
    isna = isnull

    # ---- value-wise methods (NaN stays NaN, an absent row stays absent)
    def clip(self, lower=None, upper=None, **k):
        if k or not all(x is None or _num(x) for x in (lower, upper)):
            raise Unsupported("clip() with non-scalar bounds")
        if self.v is ABSENT or _isnan(self.v):
            return Ser(self.v)
        v = self.v
        if lower is not None and not _isnan(lower):
            v = max(v, lower)
        if upper is not None and not _isnan(upper):
            v = min(v, upper)
        return Ser(v)

    def where(self, cond, other=math.nan, **k):
        if k or not isinstance(cond, Mask):
            raise Unsupported("where() with a condition that is not a mask")
        if self.v is ABSENT:
            return Ser(ABSENT)
        return Ser(self.v if cond.b else _row(other))

    def mask(self, cond, other=math.nan, **k):
        if k or not isinstance(cond, Mask):
            raise Unsupported("mask() with a condition that is not a mask")
        return self.where(Mask(not cond.b), other)

    def fillna(self, value=None, **k):
        if k or not _num(value):
            raise Unsupported("fillna() other than fillna(<number>)")
        return Ser(value if _isnan(self.v) else self.v)

    def abs(self): return Ser(self.v if self.v is ABSENT else abs(self.v))
    def copy(self, deep=True): return Ser(self.v)
    def astype(self, t): return Ser(self.v) if t in (float, "float", "float64") else (_ for _ in ()).throw(Unsupported("astype() other than float"))
    def rename(self, *a, **k): return Ser(self.v)


def _row(x):
    if isinstance(x, Ser):
        if x.v is ABSENT:
            return math.nan
        return x.v
    if _num(x):
        return x
    raise Unsupported("a replacement value that is neither a number nor a series")


class NPRow(Stub):
    inf = math.inf
    nan = math.nan
    NaN = math.nan

    @staticmethod
    def where(cond, a, b):
        if not isinstance(cond, Mask):
            raise Unsupported("np.where with a condition that is not a mask")
        return Ser(_row(a) if cond.b else _row(b))

    @staticmethod
    def _ext(f, a, b):
        if not isinstance(a, Ser) and not isinstance(b, Ser):
            if _num(a) and _num(b):
                return math.nan if (_isnan(a) or _isnan(b)) else f(a, b)
            raise Unsupported("np.minimum/maximum of non-numbers")
        if (isinstance(a, Ser) and a.v is ABSENT) or (isinstance(b, Ser) and b.v is ABSENT):
            return Ser(ABSENT)
        x, y = _row(a), _row(b)
        return Ser(math.nan if (_isnan(x) or _isnan(y)) else f(x, y))

    @staticmethod
    def minimum(a, b): return NPRow._ext(min, a, b)

    @staticmethod
    def maximum(a, b): return NPRow._ext(max, a, b)

    @staticmethod
    def clip(x, lo, hi):
        if isinstance(x, Ser):
            return x.clip(lo, hi)
        raise Unsupported("np.clip of something that is not a series")


class PDRow(Stub):
    @staticmethod
    def Series(data=None, index=None, **k):
        if k or not isinstance(index, Idx) or not _num(data):
            raise Unsupported("pd.Series other than Series(<number>, index=<index>)")
        return Ser(data if index.present else ABSENT)

    @staticmethod
    def DataFrame(data=None, **k):
        if k or not isinstance(data, dict):
            raise Unsupported("pd.DataFrame other than DataFrame({name: series})")
        return data

    @staticmethod
    def concat(objs, axis=0, **k):
        if axis not in (1, "columns") or k or not isinstance(objs, dict):
            raise Unsupported("pd.concat other than concat({name: series}, axis=1)")
        return dict(objs)
