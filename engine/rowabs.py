"""One-row abstraction of pandas Series code: a Series is represented by its value at one generic row (a number, NaN, or ABSENT
when the row was filtered out), a boolean mask by one bool, an Index by 'row present?'.  Feature code that touches series through
comparisons, boolean-mask selection, arithmetic, reindex(fill_value), clip / where / mask / fillna, np.where / minimum / maximum and
Series(scalar, index=...) is interpreted from its AST (engine/pyinterp) with these stand-ins; anything else raises Unsupported.
Nothing of the analysed repository is executed: the interpreter and the stand-ins below are the only semantics used."""
from __future__ import annotations

import math
from typing import Any

from .pyinterp import Stub, Unsupported

ABSENT = "<absent>"


def _isnan(x):
    return isinstance(x, float) and math.isnan(x)


def _num(x) -> bool:
    return isinstance(x, (int, float)) and not isinstance(x, bool)


class Mask(Stub):
    def __init__(self, b: bool):
        self.b = bool(b)

    def __and__(self, o): return Mask(self.b and _mb(o))
    __rand__ = __and__
    def __or__(self, o): return Mask(self.b or _mb(o))
    __ror__ = __or__
    def __invert__(self): return Mask(not self.b)
    def __xor__(self, o): return Mask(self.b != _mb(o))

    def __bool__(self):
        raise Unsupported("truth value of a boolean series")

    def astype(self, t):
        if t in (float, "float", "float64"):
            return Ser(1.0 if self.b else 0.0)
        if t in (int, "int", "int64"):
            return Ser(1 if self.b else 0)
        if t in (bool, "bool"):
            return Mask(self.b)
        raise Unsupported("mask.astype() other than float / int / bool")

    def __mul__(self, o):
        return self.astype(float) * o

    __rmul__ = __mul__

    # a boolean Series and its NumPy view are the same thing under the one-row abstraction
    def to_numpy(self, *a, **k): return Mask(self.b)
    def copy(self, *a, **k): return Mask(self.b)

    @property
    def values(self): return Mask(self.b)

    # whole-series reductions ask about *some* / *every* row; the generic row decides (the rule varies it over every case)
    def any(self, *a, **k): return self.b
    def all(self, *a, **k): return self.b
    def sum(self, *a, **k): return 1 if self.b else 0

    def __repr__(self):
        return f"Mask({self.b})"


def _mb(o) -> bool:
    if isinstance(o, Mask):
        return o.b
    if isinstance(o, bool):
        return o
    raise Unsupported("boolean operation between a mask and " + type(o).__name__)


class Stamp(Stub):
    """The label of the generic row."""

    def isoformat(self, *a, **k):
        return "<stamp>"

    def __str__(self):
        return "<stamp>"


class Idx(Stub):
    def __init__(self, present: bool):
        self.present = bool(present)

    def __iter__(self):
        return iter([Stamp()] if self.present else [])

    def to_list(self):
        return list(self)

    tolist = to_list

    def _abs_len(self):
        return 1 if self.present else 0

    @property
    def empty(self):
        return not self.present

    def __getitem__(self, k):
        if isinstance(k, Mask):
            return Idx(self.present and k.b)
        raise Unsupported("index[...] with a key that is not a mask")


class Ser(Stub):
    def __init__(self, v: Any):
        self.v = v  # float | ABSENT ; NaN is float('nan')

    def present(self):
        return self.v is not ABSENT

    def __repr__(self):
        return f"Ser({self.v})"

    # ---- arithmetic
    def _arith(self, o, f, swap=False):
        if isinstance(o, Ser):
            a, b = (o.v, self.v) if swap else (self.v, o.v)
            # pandas aligns on the union of the indexes: a row missing on one side gives NaN
            if a is ABSENT and b is ABSENT:
                return Ser(ABSENT)
            if a is ABSENT or b is ABSENT:
                return Ser(math.nan)
            return Ser(f(a, b))
        if not _num(o):
            raise Unsupported("arithmetic between a series and " + type(o).__name__)
        if self.v is ABSENT:
            return Ser(ABSENT)
        return Ser(f(o, self.v) if swap else f(self.v, o))

    def __add__(self, o): return self._arith(o, lambda a, b: a + b)
    def __radd__(self, o): return self._arith(o, lambda a, b: a + b, True)
    def __sub__(self, o): return self._arith(o, lambda a, b: a - b)
    def __rsub__(self, o): return self._arith(o, lambda a, b: a - b, True)
    def __mul__(self, o): return self._arith(o, lambda a, b: a * b)
    def __rmul__(self, o): return self._arith(o, lambda a, b: a * b, True)
    def __truediv__(self, o): return self._arith(o, lambda a, b: a / b if b != 0 else (math.nan if a == 0 or _isnan(a) else math.copysign(math.inf, a)))
    def __neg__(self): return Ser(ABSENT if self.v is ABSENT else -self.v)

    # ---- comparisons (NaN compares False, True for !=, as in pandas)
    def _cmp(self, o, f):
        ov = o.v if isinstance(o, Ser) else o
        if self.v is ABSENT or ov is ABSENT:
            raise Unsupported("comparison on a filtered series")
        if not _num(ov) or not _num(self.v):
            raise Unsupported("comparison between a series and " + type(o).__name__)
        return Mask(f(self.v, ov))

    def __gt__(self, o): return self._cmp(o, lambda a, b: a > b)
    def __ge__(self, o): return self._cmp(o, lambda a, b: a >= b)
    def __lt__(self, o): return self._cmp(o, lambda a, b: a < b)
    def __le__(self, o): return self._cmp(o, lambda a, b: a <= b)
    def __eq__(self, o): return self._cmp(o, lambda a, b: a == b)
    def __ne__(self, o): return self._cmp(o, lambda a, b: a != b)
    __hash__ = None  # type: ignore

    # the method spellings of the operators (Series.le(x) is Series <= x, Series.div(x) is Series / x, ...)
    def le(self, o): return self <= o
    def lt(self, o): return self < o
    def ge(self, o): return self >= o
    def gt(self, o): return self > o
    def eq(self, o): return self == o
    def ne(self, o): return self != o
    def add(self, o): return self + o
    def sub(self, o): return self - o
    def mul(self, o): return self * o
    def div(self, o): return self / o
    truediv = divide = div
    multiply = mul
    subtract = sub

    # ---- selection / alignment
    def __getitem__(self, k):
        if isinstance(k, Mask):
            return Ser(self.v if (k.b and self.present()) else ABSENT)
        raise Unsupported("series[...] with a key that is not a mask")

    @property
    def loc(self):
        return self

    @property
    def index(self):
        return Idx(self.present())

    def reindex(self, index=None, fill_value=math.nan, **k):
        if k or not isinstance(index, Idx):
            raise Unsupported("reindex() other than reindex(<index>, fill_value=...)")
        if not index.present:
            return Ser(ABSENT)
        return Ser(self.v if self.present() else fill_value)

    def notnull(self): return Mask(self.present() and not _isnan(self.v))
    notna = notnull
    def isnull(self): return Mask(self.present() and _isnan(self.v))
    isna = isnull

    # ---- value-wise methods (NaN stays NaN, an absent row stays absent)
    def clip(self, lower=None, upper=None, **k):
        if k or not all(x is None or _num(x) for x in (lower, upper)):
            raise Unsupported("clip() with non-scalar bounds")
        if self.v is ABSENT or _isnan(self.v):
            return Ser(self.v)
        v = self.v
        if lower is not None and not _isnan(lower):
            v = max(v, lower)
        if upper is not None and not _isnan(upper):
            v = min(v, upper)
        return Ser(v)

    def where(self, cond, other=math.nan, **k):
        if k or not isinstance(cond, Mask):
            raise Unsupported("where() with a condition that is not a mask")
        if self.v is ABSENT:
            return Ser(ABSENT)
        return Ser(self.v if cond.b else _row(other))

    def mask(self, cond, other=math.nan, **k):
        if k or not isinstance(cond, Mask):
            raise Unsupported("mask() with a condition that is not a mask")
        return self.where(Mask(not cond.b), other)

    def fillna(self, value=None, **k):
        if k or not _num(value):
            raise Unsupported("fillna() other than fillna(<number>)")
        return Ser(value if _isnan(self.v) else self.v)

    def isin(self, values):
        if self.v is ABSENT:
            raise Unsupported("isin on a filtered series")
        return Mask(self.v in list(values))

    def map(self, f, **k):
        """Series.map / Index.map with a function or a dict: applied to the row's value; a boolean result is a mask."""
        if k or self.v is ABSENT:
            raise Unsupported("map() form not modelled")
        if isinstance(f, dict):
            r = f.get(self.v, math.nan)
        elif isinstance(f, Stub) and hasattr(f, "_abs_call"):
            r = f._abs_call(self.v)
        elif callable(f):
            r = f(self.v)
        else:
            raise Unsupported("map() with something that is neither a function nor a dict")
        if isinstance(r, bool):
            return Mask(r)
        if _num(r):
            return Ser(r)
        raise Unsupported("map() whose function does not give a number or a truth value")

    apply = map

    def to_frame(self, name="value"):
        return RowFrame({name: self.v if self.v is not ABSENT else math.nan}, self.v is not ABSENT)

    def abs(self): return Ser(self.v if self.v is ABSENT else abs(self.v))
    def copy(self, deep=True): return Ser(self.v)

    def astype(self, t):
        if t in (float, "float", "float64"):
            return Ser(self.v if self.v is ABSENT or isinstance(self.v, bool) is False else float(self.v))
        if t in (int, "int", "int64", "int32"):
            if self.v is ABSENT:
                return Ser(ABSENT)
            if _isnan(self.v) or self.v in (math.inf, -math.inf):
                raise Unsupported("astype(int) of a missing / infinite value")
            return Ser(int(self.v))
        raise Unsupported("astype() other than float / int")

    def rename(self, *a, **k): return Ser(self.v)

    def dropna(self, **k):
        return Ser(ABSENT if (self.v is ABSENT or _isnan(self.v)) else self.v)

    @property
    def empty(self):
        return self.v is ABSENT

    def _abs_len(self):
        return 0 if self.v is ABSENT else 1

    def any(self, **k):
        return self.v is not ABSENT and bool(self.v) and not _isnan(self.v)

    def resample(self, rule=None, *a, **k):
        """Series.resample(rule).<reduction>(): the generic row of the coarser series (its value is the reduction of the one reading)."""
        me = self

        class _Res(Stub):
            def _red(self_, *a_, **k_):
                return Ser(me.v)
            sum = mean = first = last = max = min = median = _red

            def count(self_, *a_, **k_):
                return Ser(ABSENT if me.v is ABSENT else (0 if _isnan(me.v) else 1))
        return _Res()

    # the values of the one row as a NumPy array: same abstraction, no index to align on
    def to_numpy(self, dtype=None, **k):
        return self.astype(dtype) if dtype is not None else Ser(self.v)

    @property
    def values(self):
        return Ser(self.v)

    def __mod__(self, o): return self._arith(o, lambda a, b: a % b)
    def __floordiv__(self, o): return self._arith(o, lambda a, b: a // b)
    def __pow__(self, o): return self._arith(o, lambda a, b: a ** b)


def _row(x):
    if isinstance(x, Ser):
        if x.v is ABSENT:
            return math.nan
        return x.v
    if _num(x):
        return x
    raise Unsupported("a replacement value that is neither a number nor a series")


class NPRow(Stub):
    inf = math.inf
    nan = math.nan
    NaN = math.nan

    @staticmethod
    def where(cond, a, b):
        if not isinstance(cond, Mask):
            raise Unsupported("np.where with a condition that is not a mask")
        return Ser(_row(a) if cond.b else _row(b))

    @staticmethod
    def _ext(f, a, b):
        if not isinstance(a, Ser) and not isinstance(b, Ser):
            if _num(a) and _num(b):
                return math.nan if (_isnan(a) or _isnan(b)) else f(a, b)
            raise Unsupported("np.minimum/maximum of non-numbers")
        if (isinstance(a, Ser) and a.v is ABSENT) or (isinstance(b, Ser) and b.v is ABSENT):
            return Ser(ABSENT)
        x, y = _row(a), _row(b)
        return Ser(math.nan if (_isnan(x) or _isnan(y)) else f(x, y))

    @staticmethod
    def minimum(a, b): return NPRow._ext(min, a, b)

    @staticmethod
    def maximum(a, b): return NPRow._ext(max, a, b)

    @staticmethod
    def clip(x, lo, hi):
        if isinstance(x, Ser):
            return x.clip(lo, hi)
        raise Unsupported("np.clip of something that is not a series")

    # ---- arrays: a list of numbers is a constant table (NPArr); a series / index column is the one row (Ser)
    @staticmethod
    def array(x, dtype=None, **k):
        if isinstance(x, Ser):
            return x.astype(dtype) if dtype is not None else Ser(x.v)
        if isinstance(x, NPArr):
            return x
        if isinstance(x, (list, tuple)) and all(_num(e) for e in x):
            return NPArr([float(e) for e in x] if dtype in (float, "float", "float64") else list(x))
        raise Unsupported("np.array of something that is neither a list of numbers nor a series")

    asarray = array

    @staticmethod
    def isin(x, values, **k):
        if isinstance(x, Ser):
            return x.isin(list(values))
        raise Unsupported("np.isin of something that is not a series")

    @staticmethod
    def mod(a, b):
        return a % b

    @staticmethod
    def isnan(x):
        if isinstance(x, Ser):
            return x.isnull()
        if _num(x):
            return _isnan(x)
        raise Unsupported("np.isnan of something that is neither a number nor a series")

    @staticmethod
    def zeros(*a, **k):
        raise Unsupported("np.zeros (array length is not part of the one-row abstraction)")

    float64 = float
    int64 = int


class NPArr(Stub):
    """A constant NumPy array of numbers (a lookup table / list of endpoints).  Indexing it with the one row's value looks the entry up."""

    def __init__(self, xs):
        self.xs = list(xs)

    def __iter__(self):
        return iter(self.xs)

    def _abs_len(self):
        return len(self.xs)

    def __getitem__(self, k):
        if isinstance(k, slice):
            return NPArr(self.xs[k])
        if isinstance(k, int):
            return self.xs[k]
        if isinstance(k, Ser):
            if k.v is ABSENT:
                return Ser(ABSENT)
            if not isinstance(k.v, int):
                raise Unsupported("array indexed by a non-integer series")
            if not -len(self.xs) <= k.v < len(self.xs):
                from .pyinterp import InterpRaised
                raise InterpRaised("IndexError", f"index {k.v} out of bounds for a table of {len(self.xs)}")
            return Ser(self.xs[k.v])
        raise Unsupported("array index form not modelled")

    def astype(self, t):
        return NPArr([float(x) for x in self.xs]) if t in (float, "float", "float64") else (NPArr([int(x) for x in self.xs]) if t in (int, "int", "int64") else (_ for _ in ()).throw(Unsupported("astype")))

    def tolist(self):
        return list(self.xs)

    def __repr__(self):
        return f"NPArr({self.xs})"


class PDRow(Stub):
    @staticmethod
    def Series(data=None, index=None, **k):
        if k or not isinstance(index, Idx) or not _num(data):
            raise Unsupported("pd.Series other than Series(<number>, index=<index>)")
        return Ser(data if index.present else ABSENT)

    @staticmethod
    def DataFrame(data=None, index=None, columns=None, **k):
        if k or not isinstance(data, dict):
            raise Unsupported("pd.DataFrame other than DataFrame({name: series}[, index=..., columns=[...]])")
        if columns is not None:
            cols = list(columns)
            data = {c: data.get(c, Ser(math.nan)) for c in cols}   # `columns` selects and orders; a name the dict lacks is an all-NaN column
        return RowTable(data, index)

    @staticmethod
    def concat(objs, axis=0, **k):
        if axis not in (1, "columns") or k or not isinstance(objs, dict):
            raise Unsupported("pd.concat other than concat({name: series}, axis=1)")
        return dict(objs)


class RowFrame(Stub):
    """A frame under the one-row abstraction: the generic row is present or filtered out; each column holds its value at that row."""
    _settable = True

    def __init__(self, cols, present: bool = True):
        self._cols = {k: (v if isinstance(v, Ser) else Ser(v)) for k, v in cols.items()}
        self._present = bool(present)

    def _col(self, c):
        if c not in self._cols:
            from .pyinterp import InterpRaised
            raise InterpRaised("KeyError", str(c))
        return Ser(self._cols[c].v if self._present else ABSENT)

    def __getattr__(self, name):
        if name.startswith("_"):
            raise AttributeError(name)
        if name in self.__dict__.get("_cols", {}):
            return self._col(name)
        raise AttributeError(name)

    def __getitem__(self, k):
        if isinstance(k, str):
            return self._col(k)
        if isinstance(k, list) and all(isinstance(x, str) for x in k):
            for x in k:
                self._col(x)
            return RowFrame({x: self._cols[x] for x in k}, self._present)
        if isinstance(k, Mask):
            return RowFrame(self._cols, self._present and k.b)
        raise Unsupported("frame[...] with a key that is neither a column, a column list nor a mask")

    def __setitem__(self, k, v):
        if not isinstance(k, str):
            raise Unsupported("frame[...] = ... with a key that is not a column")
        self._cols[k] = Ser(_row(v)) if isinstance(v, Ser) else Ser(v if _num(v) else (_ for _ in ()).throw(Unsupported("column store of a non-number")))

    @property
    def columns(self):
        return list(self._cols)

    @property
    def index(self):
        return Idx(self._present)

    @property
    def empty(self):
        return not self._present

    def _abs_len(self):
        return 1 if self._present else 0

    @property
    def loc(self):
        return _RowLoc(self)

    def copy(self, deep=True):
        return RowFrame(self._cols, self._present)

    def reindex(self, index=None, **k):
        if k or not isinstance(index, Idx):
            raise Unsupported("frame.reindex() other than reindex(<index>)")
        if not index.present:
            return RowFrame(self._cols, False)
        return RowFrame(self._cols if self._present else {c: Ser(math.nan) for c in self._cols}, True)

    def dropna(self, **k):
        if k:
            raise Unsupported("frame.dropna() with arguments")
        return RowFrame(self._cols, self._present and not any(_isnan(s.v) for s in self._cols.values()))

    def rename(self, columns=None, **k):
        if k or not isinstance(columns, dict):
            raise Unsupported("frame.rename() other than rename(columns={...})")
        return RowFrame({columns.get(c, c): v for c, v in self._cols.items()}, self._present)

    def drop(self, columns=None, **k):
        if k or columns is None:
            raise Unsupported("frame.drop() other than drop(columns=[...])")
        cs = [columns] if isinstance(columns, str) else list(columns)
        return RowFrame({c: v for c, v in self._cols.items() if c not in cs}, self._present)

    def where(self, cond, other=math.nan, **k):
        if k or not isinstance(cond, Mask) or not _isnan(other):
            raise Unsupported("frame.where() other than where(<mask>)")
        return RowFrame(self._cols if cond.b else {c: Ser(math.nan) for c in self._cols}, self._present)

    def mask(self, cond, other=math.nan, **k):
        if k or not isinstance(cond, Mask):
            raise Unsupported("frame.mask() other than mask(<mask>)")
        return self.where(Mask(not cond.b), other)

    def describe(self):
        return {"present": self._present, "values": {c: (None if _isnan(s.v) else s.v) for c, s in self._cols.items()}}


class _RowLoc(Stub):
    def __init__(self, fr: RowFrame):
        self._fr = fr

    def __getitem__(self, k):
        if isinstance(k, Mask):
            return self._fr[k]
        if isinstance(k, tuple) and len(k) == 2 and isinstance(k[0], Mask):
            sub = self._fr[k[0]]
            return sub[k[1]]
        raise Unsupported("frame.loc[...] other than loc[mask] / loc[mask, columns]")

    def __setitem__(self, k, v):
        if not (isinstance(k, tuple) and len(k) == 2 and isinstance(k[0], Mask) and isinstance(k[1], str)):
            raise Unsupported("frame.loc[...] = ... other than loc[mask, column] = value")
        if not self._fr._present or not k[0].b:
            return
        if isinstance(v, Ser):
            # assignment aligns on the index: a row the right-hand side does not have becomes NaN
            self._fr._cols[k[1]] = Ser(math.nan if v.v is ABSENT else v.v)
        elif _num(v):
            self._fr._cols[k[1]] = Ser(v)
        else:
            raise Unsupported("frame.loc[mask, column] = <neither a series nor a number>")


class RowTable(dict):
    """The frame pd.DataFrame({name: series}, index=..., columns=[...]) builds, under the one-row abstraction: an ordered dict of the
    row's values (it *is* a dict, so rules written for DataFrame(dict) keep working) that remembers the index it was given."""

    def __init__(self, data, index=None):
        super().__init__(data)
        self.index_given = index

    def sum(self, axis=0, min_count=0, skipna=True, **k):
        """Row-wise sum over the columns (axis=1): NaN and absent cells are skipped; fewer than min_count values present gives NaN."""
        if k or axis not in (1, "columns") or skipna is not True:
            raise Unsupported("frame.sum() other than sum(axis=1[, min_count=n])")
        vals = []
        for v in self.values():
            x = v.v if isinstance(v, Ser) else v
            if x is ABSENT or _isnan(x):
                continue
            if not _num(x):
                raise Unsupported("frame.sum() over a non-numeric column")
            vals.append(x)
        if len(vals) < min_count:
            return Ser(math.nan)
        return Ser(float(sum(vals)))
