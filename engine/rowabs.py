"""One-row abstraction of pandas Series code: a Series is represented by its value at one generic row
(a number, NaN, or ABSENT when the row was filtered out), a boolean mask by one bool, an Index by
'row present?'.  Straight-line / single-loop feature code that touches series only through
comparisons, boolean-mask selection, +/-, reindex(fill_value) and Series(scalar, index=...) is
interpreted from its AST under this abstraction; anything else raises Unsupported.
Nothing of the analysed repository is executed: the interpreter below is the only semantics used."""
from __future__ import annotations

import ast
import math
from dataclasses import dataclass
from typing import Any, Callable, Dict, List, Optional

from .index import unparse


class Unsupported(Exception):
    pass


ABSENT = "<absent>"


@dataclass
class Ser:
    v: Any  # float | ABSENT ; NaN is float('nan')

    def present(self):
        return self.v is not ABSENT


@dataclass
class Idx:
    present: bool


@dataclass
class Mask:
    b: bool


def _isnan(x):
    return isinstance(x, float) and math.isnan(x)


class RowInterp:
    def __init__(self, fn: ast.FunctionDef, series_params: Dict[str, float], other_params: Dict[str, Any]):
        self.fn = fn
        self.env: Dict[str, Any] = {}
        for k, v in series_params.items():
            self.env[k] = Ser(v)
        self.env.update(other_params)
        self.base_index_of = {k for k in series_params}
        self.local_funcs: Dict[str, ast.FunctionDef] = {}
        self.ret: Any = None

    # ------------------------------------------------------------ expressions
    def ev(self, e: ast.AST) -> Any:
        if isinstance(e, ast.Constant):
            return e.value
        if isinstance(e, ast.Name):
            if e.id in self.env:
                return self.env[e.id]
            raise Unsupported(f"unbound name {e.id}")
        if isinstance(e, ast.Attribute):
            t = unparse(e)
            if t in ("np.inf", "math.inf"):
                return math.inf
            if t in ("np.nan", "math.nan"):
                return math.nan
            base = self.ev(e.value)
            if isinstance(base, Ser) and e.attr == "index":
                return Idx(base.present())
            raise Unsupported(t)
        if isinstance(e, ast.UnaryOp):
            v = self.ev(e.operand)
            if isinstance(e.op, ast.USub) and isinstance(v, (int, float)):
                return -v
            if isinstance(e.op, ast.Invert) and isinstance(v, Mask):
                return Mask(not v.b)
            if isinstance(e.op, ast.Not) and isinstance(v, bool):
                return not v
            raise Unsupported(unparse(e))
        if isinstance(e, ast.List):
            return [self.ev(x) for x in e.elts]
        if isinstance(e, ast.Tuple):
            return tuple(self.ev(x) for x in e.elts)
        if isinstance(e, ast.Dict):
            return {self.ev(k): self.ev(v) for k, v in zip(e.keys, e.values)}
        if isinstance(e, ast.BinOp):
            l, r = self.ev(e.left), self.ev(e.right)
            return self.binop(e.op, l, r, e)
        if isinstance(e, ast.Compare) and len(e.ops) == 1:
            l, r = self.ev(e.left), self.ev(e.comparators[0])
            return self.compare(e.ops[0], l, r, e)
        if isinstance(e, ast.Subscript):
            base = self.ev(e.value)
            if isinstance(e.slice, ast.Slice):
                if isinstance(base, (list, tuple)):
                    lo = self.ev(e.slice.lower) if e.slice.lower else None
                    hi = self.ev(e.slice.upper) if e.slice.upper else None
                    return base[lo:hi]
                raise Unsupported(unparse(e))
            k = self.ev(e.slice)
            if isinstance(base, Ser) and isinstance(k, Mask):
                return Ser(base.v if (k.b and base.present()) else ABSENT)
            if isinstance(base, Idx) and isinstance(k, Mask):
                return Idx(base.present and k.b)
            if isinstance(base, (list, tuple, dict)):
                return base[k]
            raise Unsupported(unparse(e))
        if isinstance(e, ast.Call):
            return self.call(e)
        raise Unsupported(unparse(e))

    def binop(self, op, l, r, e):
        if isinstance(l, Mask) and isinstance(r, Mask):
            if isinstance(op, ast.BitAnd):
                return Mask(l.b and r.b)
            if isinstance(op, ast.BitOr):
                return Mask(l.b or r.b)
            raise Unsupported(unparse(e))
        if isinstance(l, list) and isinstance(r, list) and isinstance(op, ast.Add):
            return l + r
        def arith(a, b):
            if isinstance(op, ast.Add):
                return a + b
            if isinstance(op, ast.Sub):
                return a - b
            if isinstance(op, ast.Mult):
                return a * b
            if isinstance(op, ast.Div):
                return a / b
            raise Unsupported(unparse(e))
        if isinstance(l, Ser) or isinstance(r, Ser):
            lv = l.v if isinstance(l, Ser) else l
            rv = r.v if isinstance(r, Ser) else r
            if isinstance(l, Ser) and isinstance(r, Ser):
                # pandas aligns on the union of the indexes: a row missing on one side gives NaN
                if lv is ABSENT and rv is ABSENT:
                    return Ser(ABSENT)
                if lv is ABSENT or rv is ABSENT:
                    return Ser(math.nan)
            elif lv is ABSENT or rv is ABSENT:
                return Ser(ABSENT)
            if not isinstance(lv, (int, float)) or not isinstance(rv, (int, float)):
                raise Unsupported(unparse(e))
            return Ser(arith(lv, rv))
        if isinstance(l, (int, float)) and isinstance(r, (int, float)):
            return arith(l, r)
        raise Unsupported(unparse(e))

    def compare(self, op, l, r, e):
        series = isinstance(l, Ser) or isinstance(r, Ser)
        lv = l.v if isinstance(l, Ser) else l
        rv = r.v if isinstance(r, Ser) else r
        if lv is ABSENT or rv is ABSENT:
            raise Unsupported("comparison on a filtered series: " + unparse(e))
        if isinstance(op, (ast.In, ast.NotIn)):
            res = lv in rv
            return (not res) if isinstance(op, ast.NotIn) else res
        if not isinstance(lv, (int, float)) or not isinstance(rv, (int, float)):
            if isinstance(op, ast.Eq):
                return Mask(lv == rv) if series else (lv == rv)
            raise Unsupported(unparse(e))
        f = {ast.Gt: lambda a, b: a > b, ast.GtE: lambda a, b: a >= b, ast.Lt: lambda a, b: a < b,
             ast.LtE: lambda a, b: a <= b, ast.Eq: lambda a, b: a == b, ast.NotEq: lambda a, b: a != b}.get(type(op))
        if f is None:
            raise Unsupported(unparse(e))
        res = f(lv, rv)  # NaN compares False (True for !=), as in pandas
        return Mask(res) if series else res

    def call(self, e: ast.Call):
        fn = e.func
        name = unparse(fn)
        if isinstance(fn, ast.Name) and fn.id in self.local_funcs:
            f = self.local_funcs[fn.id]
            args = [self.ev(a) for a in e.args]
            saved = dict(self.env)
            for p, a in zip(f.args.args, args):
                self.env[p.arg] = a
            try:
                for st in f.body:
                    if isinstance(st, ast.Return):
                        return self.ev(st.value)
                    if isinstance(st, ast.Expr) and isinstance(st.value, ast.Constant):
                        continue
                    self.exec_stmt(st)
                raise Unsupported(f"nested function {fn.id} without return")
            finally:
                self.env = saved
        if name == "pd.Series" and e.args:
            val = self.ev(e.args[0])
            idx = None
            for k in e.keywords:
                if k.arg == "index":
                    idx = self.ev(k.value)
            if not isinstance(idx, Idx) or not isinstance(val, (int, float)):
                raise Unsupported(unparse(e))
            return Ser(val if idx.present else ABSENT)
        if name == "pd.DataFrame" and len(e.args) == 1:
            return self.ev(e.args[0])
        if name in ("enumerate", "zip", "list", "range", "len"):
            args = [self.ev(a) for a in e.args]
            return {"enumerate": lambda *a: list(enumerate(*a)), "zip": lambda *a: list(zip(*a)), "list": list, "range": lambda *a: list(range(*a)), "len": len}[name](*args)
        if isinstance(fn, ast.Attribute):
            if fn.attr == "format" and isinstance(fn.value, ast.Constant):
                return fn.value.value.format(*[self.ev(a) for a in e.args])
            recv = self.ev(fn.value)
            if isinstance(recv, Ser):
                if fn.attr == "reindex" and e.args:
                    idx = self.ev(e.args[0])
                    fill = math.nan
                    for k in e.keywords:
                        if k.arg == "fill_value":
                            fill = self.ev(k.value)
                    if not isinstance(idx, Idx):
                        raise Unsupported(unparse(e))
                    if not idx.present:
                        return Ser(ABSENT)
                    return Ser(recv.v if recv.present() else fill)
                if fn.attr in ("notnull", "notna"):
                    return Mask(recv.present() and not _isnan(recv.v))
                if fn.attr in ("isnull", "isna"):
                    return Mask(recv.present() and _isnan(recv.v))
        raise Unsupported(unparse(e))

    # ------------------------------------------------------------ statements
    def exec_stmt(self, st: ast.stmt):
        if isinstance(st, ast.Expr) and isinstance(st.value, ast.Constant):
            return
        if isinstance(st, ast.FunctionDef):
            self.local_funcs[st.name] = st
            return
        if isinstance(st, ast.Assign) and len(st.targets) == 1:
            v = self.ev(st.value)
            self.assign(st.targets[0], v)
            return
        if isinstance(st, ast.If):
            c = self.ev(st.test)
            if not isinstance(c, bool):
                raise Unsupported("non-boolean branch: " + unparse(st.test))
            for s in (st.body if c else st.orelse):
                self.exec_stmt(s)
            return
        if isinstance(st, ast.For):
            it = self.ev(st.iter)
            for item in it:
                self.assign(st.target, item)
                for s in st.body:
                    self.exec_stmt(s)
            return
        if isinstance(st, ast.Return):
            self.ret = self.ev(st.value)
            raise _Return()
        raise Unsupported(unparse(st)[:80])

    def assign(self, t, v):
        if isinstance(t, ast.Name):
            self.env[t.id] = v
        elif isinstance(t, (ast.Tuple, ast.List)):
            vs = list(v)
            if len(vs) != len(t.elts):
                raise Unsupported("unpack")
            for a, b in zip(t.elts, vs):
                self.assign(a, b)
        elif isinstance(t, ast.Subscript):
            base = self.ev(t.value)
            k = self.ev(t.slice)
            if isinstance(base, dict):
                base[k] = v
            else:
                raise Unsupported(unparse(t))
        else:
            raise Unsupported(unparse(t))

    def run(self):
        try:
            for st in self.fn.body:
                self.exec_stmt(st)
        except _Return:
            pass
        return self.ret


class _Return(Exception):
    pass
