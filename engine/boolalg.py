"""Truth tables of test expressions over named boolean atoms (finite, exhaustive; n <= 8)."""
from __future__ import annotations

import ast
import itertools
from typing import Callable, Dict, List, Optional, Sequence, Tuple, Union

from .index import unparse


class Unrecognised(Exception):
    """A leaf of the condition is not one of the declared atoms (reported as 'cannot establish')."""


AtomResult = Optional[Union[str, Tuple[str, bool]]]
Atomizer = Callable[[ast.AST], AtomResult]


def strip_truthiness(e: ast.AST) -> Tuple[ast.AST, bool]:
    """Normalise the synonym set {x, bool(x), len(x) > 0, len(x) != 0, len(x) >= 1, x != [], x is not None-free forms}
    to (x, negated)."""
    neg = False
    while True:
        if isinstance(e, ast.UnaryOp) and isinstance(e.op, ast.Not):
            e = e.operand
            neg = not neg
            continue
        if isinstance(e, ast.Call) and isinstance(e.func, ast.Name) and e.func.id == "bool" and len(e.args) == 1:
            e = e.args[0]
            continue
        if isinstance(e, ast.Compare) and len(e.ops) == 1:
            l, op, r = e.left, e.ops[0], e.comparators[0]
            # len(x) > 0 ; len(x) != 0 ; len(x) >= 1 ; 0 < len(x)
            def is_len(z):
                return isinstance(z, ast.Call) and isinstance(z.func, ast.Name) and z.func.id == "len" and len(z.args) == 1
            def cval(z):
                return z.value if isinstance(z, ast.Constant) and isinstance(z.value, (int, float)) and not isinstance(z.value, bool) else None
            if is_len(l) and cval(r) is not None:
                c = cval(r)
                if (isinstance(op, (ast.Gt, ast.NotEq)) and c == 0) or (isinstance(op, ast.GtE) and c == 1):
                    e = l.args[0]
                    continue
                if (isinstance(op, ast.Eq) and c == 0) or (isinstance(op, ast.Lt) and c == 1) or (isinstance(op, ast.LtE) and c == 0):
                    e = l.args[0]
                    neg = not neg
                    continue
            if is_len(r) and cval(l) is not None:
                c = cval(l)
                if (isinstance(op, (ast.Lt, ast.NotEq)) and c == 0) or (isinstance(op, ast.LtE) and c == 1):
                    e = r.args[0]
                    continue
                if (isinstance(op, ast.Eq) and c == 0) or (isinstance(op, ast.Gt) and c == 1) or (isinstance(op, ast.GtE) and c == 0):
                    e = r.args[0]
                    neg = not neg
                    continue
            # x != [] ; x == []
            def is_empty_lit(z):
                return (isinstance(z, (ast.List, ast.Tuple)) and not z.elts) or (isinstance(z, ast.Dict) and not z.keys)
            if is_empty_lit(r) and isinstance(op, (ast.NotEq, ast.Eq)):
                e = l
                if isinstance(op, ast.Eq):
                    neg = not neg
                continue
        return e, neg


def truth_table(test: ast.AST, atomizer: Atomizer, atoms: Sequence[str]) -> Dict[Tuple[bool, ...], bool]:
    """Evaluate `test` for every assignment of `atoms`.  atomizer(leaf) -> 'name' | ('name', negated) | None."""
    rows: Dict[Tuple[bool, ...], bool] = {}
    for vals in itertools.product([False, True], repeat=len(atoms)):
        env = dict(zip(atoms, vals))
        rows[vals] = _ev(test, atomizer, env)
    return rows


def _ev(e: ast.AST, atomizer: Atomizer, env: Dict[str, bool]) -> bool:
    a = atomizer(e)
    if a is not None:
        if isinstance(a, tuple):
            return env[a[0]] != a[1]
        return env[a]
    if isinstance(e, ast.BoolOp):
        vs = [_ev(v, atomizer, env) for v in e.values]
        return all(vs) if isinstance(e.op, ast.And) else any(vs)
    if isinstance(e, ast.UnaryOp) and isinstance(e.op, ast.Not):
        return not _ev(e.operand, atomizer, env)
    if isinstance(e, ast.IfExp):
        return _ev(e.body, atomizer, env) if _ev(e.test, atomizer, env) else _ev(e.orelse, atomizer, env)
    if isinstance(e, ast.Constant) and isinstance(e.value, bool):
        return e.value
    s, neg = strip_truthiness(e)
    if s is not e:
        v = _ev(s, atomizer, env)
        return (not v) if neg else v
    raise Unrecognised(unparse(e))


def conj_table(conds: Sequence[Tuple[ast.AST, bool]], atomizer: Atomizer, atoms: Sequence[str],
               ignore_unrecognised: bool = False) -> Dict[Tuple[bool, ...], bool]:
    """Truth table of the conjunction of (test, polarity) pairs (a path condition)."""
    rows: Dict[Tuple[bool, ...], bool] = {}
    for vals in itertools.product([False, True], repeat=len(atoms)):
        env = dict(zip(atoms, vals))
        acc = True
        for t, pol in conds:
            try:
                v = _ev(t, atomizer, env)
            except Unrecognised:
                if ignore_unrecognised:
                    continue
                raise
            acc = acc and (v == pol)
        rows[vals] = acc
    return rows


def spec_table(atoms: Sequence[str], fn: Callable[..., bool]) -> Dict[Tuple[bool, ...], bool]:
    return {vals: bool(fn(**dict(zip(atoms, vals)))) for vals in itertools.product([False, True], repeat=len(atoms))}


def fmt_table(atoms: Sequence[str], rows: Dict[Tuple[bool, ...], bool]) -> List[str]:
    return [" ".join(f"{a}={int(v)}" for a, v in zip(atoms, k)) + f" -> {int(r)}" for k, r in sorted(rows.items())]


def mentions_only_atoms(test: ast.AST, atomizer: Atomizer) -> bool:
    try:
        truth_table(test, atomizer, _atoms_of(test, atomizer))
        return True
    except Unrecognised:
        return False


def _atoms_of(test: ast.AST, atomizer: Atomizer) -> List[str]:
    out: List[str] = []

    def rec(e):
        a = atomizer(e)
        if a is not None:
            nm = a[0] if isinstance(a, tuple) else a
            if nm not in out:
                out.append(nm)
            return
        if isinstance(e, ast.BoolOp):
            for v in e.values:
                rec(v)
        elif isinstance(e, ast.UnaryOp) and isinstance(e.op, ast.Not):
            rec(e.operand)
        elif isinstance(e, ast.IfExp):
            rec(e.test); rec(e.body); rec(e.orelse)
        else:
            s, _ = strip_truthiness(e)
            if s is not e:
                rec(s)
    rec(test)
    return out


# ---------------------------------------------------------------------- three-valued (Kleene) evaluation
def ev3(e: ast.AST, atomizer: Atomizer, env: Dict[str, bool]) -> Optional[bool]:
    """True / False / None (unknown: the leaf is not a declared atom and may take either value)."""
    a = atomizer(e)
    if a is not None:
        nm = a[0] if isinstance(a, tuple) else a
        if nm not in env:
            return None
        if isinstance(a, tuple):
            return env[a[0]] != a[1]
        return env[a]
    if isinstance(e, ast.BoolOp):
        vs = [ev3(v, atomizer, env) for v in e.values]
        if isinstance(e.op, ast.And):
            if any(v is False for v in vs):
                return False
            return True if all(v is True for v in vs) else None
        if any(v is True for v in vs):
            return True
        return False if all(v is False for v in vs) else None
    if isinstance(e, ast.UnaryOp) and isinstance(e.op, ast.Not):
        v = ev3(e.operand, atomizer, env)
        return None if v is None else (not v)
    if isinstance(e, ast.IfExp):
        t = ev3(e.test, atomizer, env)
        if t is None:
            b, o = ev3(e.body, atomizer, env), ev3(e.orelse, atomizer, env)
            return b if b == o else None
        return ev3(e.body if t else e.orelse, atomizer, env)
    if isinstance(e, ast.Constant) and isinstance(e.value, bool):
        return e.value
    if isinstance(e, ast.NamedExpr):
        return ev3(e.value, atomizer, env)
    s, neg = strip_truthiness(e)
    if s is not e:
        v = ev3(s, atomizer, env)
        return None if v is None else ((not v) if neg else v)
    return None


def assignments(atoms: Sequence[str]):
    for vals in itertools.product([False, True], repeat=len(atoms)):
        yield dict(zip(atoms, vals))
