"""Intraprocedural dataflow on the statement CFG: reaching definitions / def-use chains, and an
origin analysis for pandas/NumPy objects (is the object a store writes into FRESH, or may it be
— or share storage with — something the caller handed in?)."""
from __future__ import annotations

import ast
from dataclasses import dataclass
from typing import Dict, FrozenSet, Iterable, List, Optional, Set, Tuple

import networkx as nx

from .cfg import CFG, ENTRY, EXIT, RAISE
from .index import FuncNode, root_of, unparse, walk_no_nested

PARAM = "PARAM"


@dataclass(frozen=True)
class Def:
    name: str
    stmt_id: int  # id of defining stmt, or 0 for parameter
    kind: str  # 'assign' | 'aug' | 'for' | 'with' | 'param' | 'import' | 'def' | 'except' | 'walrus'


def _targets_of(s: ast.AST) -> List[Tuple[ast.AST, str]]:
    out = []
    if isinstance(s, ast.Assign):
        out += [(t, "assign") for t in s.targets]
    elif isinstance(s, ast.AnnAssign) and s.value is not None:
        out.append((s.target, "assign"))
    elif isinstance(s, ast.AugAssign):
        out.append((s.target, "aug"))
    elif isinstance(s, (ast.For, ast.AsyncFor)):
        out.append((s.target, "for"))
    elif isinstance(s, (ast.With, ast.AsyncWith)):
        out += [(i.optional_vars, "with") for i in s.items if i.optional_vars is not None]
    elif isinstance(s, ast.ExceptHandler) and s.name:
        out.append((ast.Name(id=s.name, ctx=ast.Store()), "except"))
    elif isinstance(s, (ast.Import, ast.ImportFrom)):
        for a in s.names:
            out.append((ast.Name(id=(a.asname or a.name).split(".")[0], ctx=ast.Store()), "import"))
    elif isinstance(s, FuncNode) or isinstance(s, ast.ClassDef):
        out.append((ast.Name(id=s.name, ctx=ast.Store()), "def"))
    return out


def names_stored(s: ast.AST) -> List[Tuple[str, str]]:
    """Plain local names (re)bound by statement s (not attribute/subscript stores)."""
    out = []
    for t, kind in _targets_of(s):
        for x in _flatten_target(t):
            if isinstance(x, ast.Name):
                out.append((x.id, kind))
    # walrus anywhere in the statement's own expressions (not nested statements)
    for x in _own_exprs(s):
        for n in ast.walk(x):
            if isinstance(n, ast.NamedExpr) and isinstance(n.target, ast.Name):
                out.append((n.target.id, "walrus"))
    return out


def _flatten_target(t: ast.AST) -> List[ast.AST]:
    if isinstance(t, (ast.Tuple, ast.List)):
        out = []
        for e in t.elts:
            out += _flatten_target(e)
        return out
    if isinstance(t, ast.Starred):
        return _flatten_target(t.value)
    return [t]


def _own_exprs(s: ast.AST) -> List[ast.AST]:
    """Expressions evaluated by the statement node itself (for compound statements: the header only)."""
    if isinstance(s, ast.If) or isinstance(s, ast.While):
        return [s.test]
    if isinstance(s, (ast.For, ast.AsyncFor)):
        return [s.iter]
    if isinstance(s, (ast.With, ast.AsyncWith)):
        return [i.context_expr for i in s.items]
    if isinstance(s, ast.Try) or s.__class__.__name__ == "TryStar":
        return []
    if isinstance(s, ast.ExceptHandler):
        return [s.type] if s.type is not None else []
    if isinstance(s, FuncNode) or isinstance(s, ast.ClassDef):
        return list(s.decorator_list)
    return [c for c in ast.iter_child_nodes(s) if isinstance(c, ast.expr)]


def own_exprs(s: ast.AST) -> List[ast.AST]:
    return _own_exprs(s)


class ReachingDefs:
    def __init__(self, fn: ast.AST, cfg: Optional[CFG] = None):
        self.fn = fn
        self.cfg = cfg or CFG(fn)
        g = self.cfg.g
        self.gen: Dict[object, List[Def]] = {}
        params = []
        a = fn.args
        for p in a.posonlyargs + a.args + a.kwonlyargs:
            params.append(p.arg)
        if a.vararg:
            params.append(a.vararg.arg)
        if a.kwarg:
            params.append(a.kwarg.arg)
        self.params = params
        self.gen[ENTRY] = [Def(p, 0, "param") for p in params]
        for n in self.cfg.nodes():
            s = self.cfg.stmt_of[n]
            self.gen[n] = [Def(nm, n, kind) for nm, kind in names_stored(s)]
        IN: Dict[object, Set[Def]] = {n: set() for n in g.nodes}
        OUT: Dict[object, Set[Def]] = {n: set() for n in g.nodes}
        OUT[ENTRY] = set(self.gen[ENTRY])
        work = list(g.nodes)
        while work:
            n = work.pop()
            if n == ENTRY:
                continue
            i = set()
            for p in g.predecessors(n):
                i |= OUT[p]
            IN[n] = i
            gens = self.gen.get(n, [])
            if gens:
                killed = {d.name for d in gens if d.kind != "aug"}
                o = {d for d in i if d.name not in killed} | set(gens)
            else:
                o = i
            if o != OUT[n]:
                OUT[n] = o
                work.extend(g.successors(n))
        self.IN, self.OUT = IN, OUT

    def reaching(self, stmt: ast.AST, name: str) -> List[Def]:
        return sorted((d for d in self.IN.get(id(stmt), ()) if d.name == name), key=lambda d: d.stmt_id)

    def def_stmt(self, d: Def) -> Optional[ast.AST]:
        return self.cfg.stmt_of.get(d.stmt_id)

    def value_of(self, d: Def) -> Optional[ast.AST]:
        """RHS expression for simple `name = expr` definitions (None for params, loops, tuple-unpacking)."""
        s = self.def_stmt(d)
        if isinstance(s, ast.Assign) and len(s.targets) == 1 and isinstance(s.targets[0], ast.Name):
            return s.value
        if isinstance(s, ast.AnnAssign) and isinstance(s.target, ast.Name):
            return s.value
        if isinstance(s, ast.Assign):
            for t in s.targets:
                if isinstance(t, ast.Name) and t.id == d.name:
                    return s.value
        return None

    def unpack_source(self, d: Def) -> Optional[Tuple[ast.AST, int]]:
        """For `a, b = expr` return (expr, position of d.name)."""
        s = self.def_stmt(d)
        if isinstance(s, ast.Assign) and len(s.targets) == 1 and isinstance(s.targets[0], (ast.Tuple, ast.List)):
            for i, e in enumerate(s.targets[0].elts):
                if isinstance(e, ast.Name) and e.id == d.name:
                    return s.value, i
        return None

    def uses(self, d: Def) -> List[ast.AST]:
        """Statements where definition d may be read."""
        out = []
        for n in self.cfg.nodes():
            if d in self.IN.get(n, ()):
                s = self.cfg.stmt_of[n]
                for e in _own_exprs(s):
                    if any(isinstance(x, ast.Name) and x.id == d.name and isinstance(x.ctx, ast.Load) for x in ast.walk(e)):
                        out.append(s)
                        break
                else:
                    # attribute / subscript stores read their base name
                    for t, _k in _targets_of(s):
                        for x in _flatten_target(t):
                            if not isinstance(x, ast.Name) and any(isinstance(y, ast.Name) and y.id == d.name for y in ast.walk(x)):
                                out.append(s)
                                break
        return out


def backward_slice_exprs(rd: ReachingDefs, stmt: ast.AST, expr: ast.AST, depth: int = 8) -> List[ast.AST]:
    """All expressions that may flow into `expr` evaluated at `stmt` through local name definitions
    (transitive, bounded).  Includes expr itself.  Parameters are represented by ast.Name nodes."""
    out: List[ast.AST] = []
    seen: Set[Tuple[int, int]] = set()

    def rec(st, e, k):
        out.append(e)
        if k <= 0:
            return
        for n in ast.walk(e):
            if isinstance(n, ast.Name) and isinstance(n.ctx, ast.Load):
                for d in rd.reaching(st, n.id):
                    if (d.stmt_id, id(n)) in seen:
                        continue
                    seen.add((d.stmt_id, id(n)))
                    v = rd.value_of(d)
                    ds = rd.def_stmt(d)
                    if v is not None and ds is not None:
                        rec(ds, v, k - 1)
                    elif ds is not None:
                        us = rd.unpack_source(d)
                        if us is not None:
                            rec(ds, us[0], k - 1)
                        elif isinstance(ds, (ast.For, ast.AsyncFor)):
                            rec(ds, ds.iter, k - 1)
                        elif isinstance(ds, ast.AugAssign):
                            rec(ds, ds.value, k - 1)
    rec(stmt, expr, depth)
    return out
