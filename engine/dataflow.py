"""Intraprocedural dataflow on the statement CFG: reaching definitions / def-use chains, and an
origin analysis for pandas/NumPy objects (is the object a store writes into FRESH, or may it be
— or share storage with — something the caller handed in?)."""
from __future__ import annotations

import ast
from dataclasses import dataclass
from typing import Dict, FrozenSet, Iterable, List, Optional, Set, Tuple

import networkx as nx

from .cfg import CFG, ENTRY, EXIT, RAISE
from .index import FuncNode, root_of, unparse, walk_no_nested

PARAM = "PARAM"


@dataclass(frozen=True)
class Def:
    name: str
    stmt_id: int  # id of defining stmt, or 0 for parameter
    kind: str  # 'assign' | 'aug' | 'for' | 'with' | 'param' | 'import' | 'def' | 'except' | 'walrus'


def _targets_of(s: ast.AST) -> List[Tuple[ast.AST, str]]:
    out = []
    if isinstance(s, ast.Assign):
        out += [(t, "assign") for t in s.targets]
    elif isinstance(s, ast.AnnAssign) and s.value is not None:
        out.append((s.target, "assign"))
    elif isinstance(s, ast.AugAssign):
        out.append((s.target, "aug"))
    elif isinstance(s, (ast.For, ast.AsyncFor)):
        out.append((s.target, "for"))
    elif isinstance(s, (ast.With, ast.AsyncWith)):
        out += [(i.optional_vars, "with") for i in s.items if i.optional_vars is not None]
    elif isinstance(s, ast.ExceptHandler) and s.name:
        out.append((ast.Name(id=s.name, ctx=ast.Store()), "except"))
    elif isinstance(s, (ast.Import, ast.ImportFrom)):
        for a in s.names:
            out.append((ast.Name(id=(a.asname or a.name).split(".")[0], ctx=ast.Store()), "import"))
    elif isinstance(s, FuncNode) or isinstance(s, ast.ClassDef):
        out.append((ast.Name(id=s.name, ctx=ast.Store()), "def"))
    return out


def names_stored(s: ast.AST) -> List[Tuple[str, str]]:
    """Plain local names (re)bound by statement s (not attribute/subscript stores)."""
    out = []
    for t, kind in _targets_of(s):
        for x in _flatten_target(t):
            if isinstance(x, ast.Name):
                out.append((x.id, kind))
    # walrus anywhere in the statement's own expressions (not nested statements)
    for x in _own_exprs(s):
        for n in ast.walk(x):
            if isinstance(n, ast.NamedExpr) and isinstance(n.target, ast.Name):
                out.append((n.target.id, "walrus"))
    return out


def _flatten_target(t: ast.AST) -> List[ast.AST]:
    if isinstance(t, (ast.Tuple, ast.List)):
        out = []
        for e in t.elts:
            out += _flatten_target(e)
        return out
    if isinstance(t, ast.Starred):
        return _flatten_target(t.value)
    return [t]


def _own_exprs(s: ast.AST) -> List[ast.AST]:
    """Expressions evaluated by the statement node itself (for compound statements: the header only)."""
    if isinstance(s, ast.If) or isinstance(s, ast.While):
        return [s.test]
    if isinstance(s, (ast.For, ast.AsyncFor)):
        return [s.iter]
    if isinstance(s, (ast.With, ast.AsyncWith)):
        return [i.context_expr for i in s.items]
    if isinstance(s, ast.Try) or s.__class__.__name__ == "TryStar":
        return []
    if isinstance(s, ast.ExceptHandler):
        return [s.type] if s.type is not None else []
    if isinstance(s, FuncNode) or isinstance(s, ast.ClassDef):
        return list(s.decorator_list)
    return [c for c in ast.iter_child_nodes(s) if isinstance(c, ast.expr)]


def own_exprs(s: ast.AST) -> List[ast.AST]:
    return _own_exprs(s)


class ReachingDefs:
    def __init__(self, fn: ast.AST, cfg: Optional[CFG] = None):
        self.fn = fn
        self.cfg = cfg or CFG(fn)
        g = self.cfg.g
        self.gen: Dict[object, List[Def]] = {}
        params = []
        a = fn.args
        for p in a.posonlyargs + a.args + a.kwonlyargs:
            params.append(p.arg)
        if a.vararg:
            params.append(a.vararg.arg)
        if a.kwarg:
            params.append(a.kwarg.arg)
        self.params = params
        self.gen[ENTRY] = [Def(p, 0, "param") for p in params]
        for n in self.cfg.nodes():
            s = self.cfg.stmt_of[n]
            self.gen[n] = [Def(nm, n, kind) for nm, kind in names_stored(s)]
        IN: Dict[object, Set[Def]] = {n: set() for n in g.nodes}
        OUT: Dict[object, Set[Def]] = {n: set() for n in g.nodes}
        OUT[ENTRY] = set(self.gen[ENTRY])
        work = list(g.nodes)
        while work:
            n = work.pop()
            if n == ENTRY:
                continue
            i = set()
            for p in g.predecessors(n):
                o_p = OUT[p]
                # branch-sensitive refinement for the `x = None ... if x is None: x = <value>` placeholder idiom: on the edge where the
                # test says `x is not None`, a definition `x = None` does not reach
                lab = g.edges[p, n].get("label")
                t = self.cfg.tests.get(p) if isinstance(self.cfg.stmt_of.get(p), (ast.If, ast.While)) else None
                if lab is not None and isinstance(t, ast.Compare) and len(t.ops) == 1 and isinstance(t.left, ast.Name) \
                        and isinstance(t.comparators[0], ast.Constant) and t.comparators[0].value is None and isinstance(t.ops[0], (ast.Is, ast.IsNot, ast.Eq, ast.NotEq)):
                    is_none_branch = lab == isinstance(t.ops[0], (ast.Is, ast.Eq))
                    if not is_none_branch:
                        nm = t.left.id
                        o_p = {d for d in o_p if not (d.name == nm and d.kind == "assign" and self._is_none_def(d))}
                i |= o_p
            IN[n] = i
            gens = self.gen.get(n, [])
            if gens:
                killed = {d.name for d in gens if d.kind != "aug"}
                o = {d for d in i if d.name not in killed} | set(gens)
            else:
                o = i
            if o != OUT[n]:
                OUT[n] = o
                work.extend(g.successors(n))
        self.IN, self.OUT = IN, OUT

    def _is_none_def(self, d: Def) -> bool:
        s = self.cfg.stmt_of.get(d.stmt_id)
        return isinstance(s, ast.Assign) and len(s.targets) == 1 and isinstance(s.targets[0], ast.Name) and isinstance(s.value, ast.Constant) and s.value.value is None

    def reaching(self, stmt: ast.AST, name: str) -> List[Def]:
        return sorted((d for d in self.IN.get(id(stmt), ()) if d.name == name), key=lambda d: d.stmt_id)

    def def_stmt(self, d: Def) -> Optional[ast.AST]:
        return self.cfg.stmt_of.get(d.stmt_id)

    def value_of(self, d: Def) -> Optional[ast.AST]:
        """RHS expression for simple `name = expr` definitions (None for params, loops, tuple-unpacking)."""
        s = self.def_stmt(d)
        if isinstance(s, ast.Assign) and len(s.targets) == 1 and isinstance(s.targets[0], ast.Name):
            return s.value
        if isinstance(s, ast.AnnAssign) and isinstance(s.target, ast.Name):
            return s.value
        if isinstance(s, ast.Assign):
            for t in s.targets:
                if isinstance(t, ast.Name) and t.id == d.name:
                    return s.value
        return None

    def unpack_source(self, d: Def) -> Optional[Tuple[ast.AST, int]]:
        """For `a, b = expr` return (expr, position of d.name)."""
        s = self.def_stmt(d)
        if isinstance(s, ast.Assign) and len(s.targets) == 1 and isinstance(s.targets[0], (ast.Tuple, ast.List)):
            for i, e in enumerate(s.targets[0].elts):
                if isinstance(e, ast.Name) and e.id == d.name:
                    return s.value, i
        return None

    def uses(self, d: Def) -> List[ast.AST]:
        """Statements where definition d may be read."""
        out = []
        for n in self.cfg.nodes():
            if d in self.IN.get(n, ()):
                s = self.cfg.stmt_of[n]
                for e in _own_exprs(s):
                    if any(isinstance(x, ast.Name) and x.id == d.name and isinstance(x.ctx, ast.Load) for x in ast.walk(e)):
                        out.append(s)
                        break
                else:
                    # attribute / subscript stores read their base name
                    for t, _k in _targets_of(s):
                        for x in _flatten_target(t):
                            if not isinstance(x, ast.Name) and any(isinstance(y, ast.Name) and y.id == d.name for y in ast.walk(x)):
                                out.append(s)
                                break
        return out


def backward_slice_exprs(rd: ReachingDefs, stmt: ast.AST, expr: ast.AST, depth: int = 8) -> List[ast.AST]:
    """All expressions that may flow into `expr` evaluated at `stmt` through local name definitions
    (transitive, bounded).  Includes expr itself.  Parameters are represented by ast.Name nodes."""
    out: List[ast.AST] = []
    seen: Set[Tuple[int, int]] = set()

    def rec(st, e, k):
        out.append(e)
        if k <= 0:
            return
        for n in ast.walk(e):
            if isinstance(n, ast.Name) and isinstance(n.ctx, ast.Load):
                for d in rd.reaching(st, n.id):
                    if (d.stmt_id, id(n)) in seen:
                        continue
                    seen.add((d.stmt_id, id(n)))
                    v = rd.value_of(d)
                    ds = rd.def_stmt(d)
                    if v is not None and ds is not None:
                        rec(ds, v, k - 1)
                    elif ds is not None:
                        us = rd.unpack_source(d)
                        if us is not None:
                            rec(ds, us[0], k - 1)
                        elif isinstance(ds, (ast.For, ast.AsyncFor)):
                            rec(ds, ds.iter, k - 1)
                        elif isinstance(ds, ast.AugAssign):
                            rec(ds, ds.value, k - 1)
    rec(stmt, expr, depth)
    return out


# ====================================================================== origin analysis
FRESH = "FRESH"
UNKNOWN = "UNKNOWN"


class Origins:
    """Where may the object denoted by an expression come from?  Tags: 'FRESH' (new object: copy / constructor /
    literal / arithmetic), ('PARAM', p) (the caller's object), ('VIEW', p) (may share storage with the caller's
    object: slice / column selection / attribute of it), ('SELF', attr), 'UNKNOWN:<call>'.
    Flow-sensitive through ReachingDefs; facts about third-party calls come from engine.pdfacts."""

    def __init__(self, fn: ast.AST, rd: Optional[ReachingDefs] = None, fresh_calls: Iterable[str] = (), self_name: str = "self",
                 call_summary=None):
        from . import pdfacts
        self.pd = pdfacts
        self.fn = fn
        self.rd = rd or ReachingDefs(fn)
        self.fresh_calls = set(fresh_calls)
        self.self_name = self_name
        self.call_summary = call_summary  # optional: (ast.Call) -> frozenset of tags or None
        self._memo: Dict[Tuple[int, int], FrozenSet] = {}
        self._stack: Set[Tuple[int, int]] = set()

    def of(self, e: ast.AST, at: ast.AST) -> FrozenSet:
        key = (id(e), id(at))
        if key in self._memo:
            return self._memo[key]
        if key in self._stack:
            return frozenset()
        self._stack.add(key)
        try:
            r = self._of(e, at)
        finally:
            self._stack.discard(key)
        self._memo[key] = r
        return r

    def _viewify(self, tags: FrozenSet) -> FrozenSet:
        out = set()
        for t in tags:
            if isinstance(t, tuple) and t[0] in ("PARAM", "VIEW"):
                out.add(("VIEW", t[1]))
            elif isinstance(t, tuple) and t[0] in ("SELF", "SELFVIEW"):
                out.add(("SELFVIEW", t[1]))
            else:
                out.add(t)
        return frozenset(out)

    def _of(self, e: ast.AST, at: ast.AST) -> FrozenSet:
        if isinstance(e, ast.Name):
            if e.id == self.self_name:
                return frozenset({("SELF", "")})
            ds = self.rd.reaching(at, e.id)
            if not ds:
                return frozenset({UNKNOWN + ":free:" + e.id})
            out = set()
            for d in ds:
                if d.kind == "param":
                    out.add(("PARAM", d.name))
                    continue
                st = self.rd.def_stmt(d)
                v = self.rd.value_of(d)
                if v is not None:
                    out |= self.of(v, st)
                elif isinstance(st, ast.AugAssign):
                    out |= self.of(st.target, st) if not (isinstance(st.target, ast.Name) and st.target.id == e.id) else set()
                    # x += y keeps x's identity for lists/arrays: union with previous defs of x at st
                    for d2 in self.rd.reaching(st, e.id):
                        if d2 is not d and d2.kind == "param":
                            out.add(("PARAM", d2.name))
                        elif d2 is not d:
                            v2 = self.rd.value_of(d2)
                            if v2 is not None:
                                out |= self.of(v2, self.rd.def_stmt(d2))
                    out.add(FRESH) if not out else None
                elif isinstance(st, (ast.For, ast.AsyncFor)):
                    out |= self._viewify(self.of(st.iter, st))
                elif isinstance(st, (ast.With, ast.AsyncWith)):
                    out.add(FRESH)
                elif d.kind in ("import", "def", "except"):
                    out.add(FRESH)
                else:
                    us = self.rd.unpack_source(d)
                    if us is not None:
                        src = self.of(us[0], st)
                        # elements of a returned tuple: treat like the call's result
                        out |= src
                    else:
                        out.add(UNKNOWN + ":def:" + d.name)
            return frozenset(out)
        if isinstance(e, (ast.Constant, ast.List, ast.Dict, ast.Tuple, ast.Set, ast.ListComp, ast.DictComp, ast.SetComp,
                          ast.GeneratorExp, ast.BinOp, ast.Compare, ast.UnaryOp, ast.BoolOp, ast.JoinedStr, ast.Lambda)):
            return frozenset({FRESH})
        if isinstance(e, ast.IfExp):
            return self.of(e.body, at) | self.of(e.orelse, at)
        if isinstance(e, ast.NamedExpr):
            return self.of(e.value, at)
        if isinstance(e, ast.Call):
            f = e.func
            ftxt = unparse(f)
            if self.call_summary is not None:
                r = self.call_summary(e, at)
                if r is not None:
                    return frozenset(r)
            if isinstance(f, ast.Attribute):
                if f.attr in ("items", "values", "get", "setdefault", "pop", "popitem") and not isinstance(f.value, ast.Constant):
                    # elements handed out by a container are the container's own objects
                    return self._viewify(self.of(f.value, at))
                if f.attr in self.pd.FRESH_METHODS and not (kw_true(e, "inplace")):
                    if f.attr == "copy" and any(k.arg == "deep" and isinstance(k.value, ast.Constant) and k.value.value is False for k in e.keywords):
                        return self._viewify(self.of(f.value, at))
                    return frozenset({FRESH})
                if ftxt in self.pd.FRESH_FUNCS or ftxt in self.fresh_calls:
                    return frozenset({FRESH})
                if f.attr in ("squeeze", "ravel", "reshape", "view", "swapaxes", "asarray", "get_level_values", "__getitem__", "xs", "setdefault"):
                    return self._viewify(self.of(f.value, at))
                return frozenset({UNKNOWN + ":" + ftxt})
            if ftxt in self.pd.FRESH_FUNCS or ftxt in self.fresh_calls:
                return frozenset({FRESH})
            if ftxt in ("np.asarray", "np.asanyarray", "np.ravel", "np.atleast_1d", "np.atleast_2d", "iter", "reversed"):
                return self._viewify(self.of(e.args[0], at)) if e.args else frozenset({FRESH})
            return frozenset({UNKNOWN + ":" + ftxt})
        if isinstance(e, ast.Subscript):
            return self._viewify(self.of(e.value, at))
        if isinstance(e, ast.Attribute):
            base = self.of(e.value, at)
            if isinstance(e.value, ast.Name) and e.value.id == self.self_name:
                return frozenset({("SELF", e.attr)})
            out = set()
            for t in base:
                if isinstance(t, tuple) and t[0] in ("PARAM", "VIEW"):
                    out.add(("VIEW", t[1]))
                elif isinstance(t, tuple) and t[0] in ("SELF", "SELFVIEW"):
                    out.add(("SELFVIEW", t[1]))
                else:
                    out.add(t)
            return frozenset(out)
        if isinstance(e, ast.Starred):
            return self.of(e.value, at)
        if isinstance(e, ast.Await):
            return self.of(e.value, at)
        return frozenset({UNKNOWN})


def kw_true(c: ast.Call, name: str) -> bool:
    return any(k.arg == name and isinstance(k.value, ast.Constant) and k.value.value is True for k in c.keywords)


def inplace_stores(fn: ast.AST) -> List[Tuple[ast.AST, ast.AST, str]]:
    """(statement, receiver expression whose storage is written, kind) for every in-place store in fn:
    subscript/attribute assignment, augmented assignment to such a target, del x[...], inplace=True calls,
    mutating method calls (append/extend/..., estimator.fit)."""
    from . import pdfacts
    out = []
    for s in walk_no_nested(fn):
        if not isinstance(s, ast.stmt):
            continue
        tgts = []
        if isinstance(s, ast.Assign):
            for t in s.targets:
                tgts += _flatten_target(t)
        elif isinstance(s, ast.AugAssign):
            tgts = [s.target]
        elif isinstance(s, ast.AnnAssign) and s.value is not None:
            tgts = [s.target]
        elif isinstance(s, ast.Delete):
            tgts = list(s.targets)
        for t in tgts:
            if isinstance(t, ast.Subscript):
                recv = t.value
                if isinstance(recv, ast.Attribute) and recv.attr in ("loc", "iloc", "at", "iat"):
                    recv = recv.value
                out.append((s, recv, "setitem"))
            elif isinstance(t, ast.Attribute):
                out.append((s, t.value, "setattr:" + t.attr))
        for e in _own_exprs(s):
            for c in ast.walk(e):
                if isinstance(c, ast.Call) and isinstance(c.func, ast.Attribute):
                    if kw_true(c, "inplace") and c.func.attr in pdfacts.INPLACE_KW_METHODS:
                        out.append((s, c.func.value, "inplace:" + c.func.attr))
                    elif c.func.attr in pdfacts.MUTATING_METHODS and isinstance(fn_parent_stmt_value(s), ast.Call) and fn_parent_stmt_value(s) is c:
                        out.append((s, c.func.value, "mutcall:" + c.func.attr))
    return out


def fn_parent_stmt_value(s: ast.AST):
    if isinstance(s, ast.Expr):
        return s.value
    return None
