"""A small interpreter for a *pure, closed* subset of Python, used to partially evaluate combinatorial helper code of the
analysed repository (candidate-split generation) on literal inputs taken from the same source.

It is the checker's own semantics: it reads the AST and never calls, imports or executes anything from the repository.
Supported: def/closures, return, if/for/while/break/continue, assignment (tuple unpacking, subscript stores, augmented),
literals, comprehensions, f-strings, lambda, boolean/compare/arithmetic operators, conditional expressions, a whitelist of
builtins, itertools.product/combinations/chain, methods of str/list/dict/set/tuple values, and attribute/subscript/call on
explicitly whitelisted *stub* objects supplied by the caller.  Everything else raises Unsupported."""
from __future__ import annotations

import ast
import itertools
import operator
from typing import Any, Callable, Dict, List, Optional

from .index import unparse


class Unsupported(Exception):
    pass


class _Return(Exception):
    def __init__(self, v):
        self.v = v


class _Break(Exception):
    pass


class InterpRaised(Exception):
    """The interpreted code executed a `raise` statement."""

    def __init__(self, exc_name: str, text: str):
        super().__init__(f"{exc_name}: {text}")
        self.exc_name = exc_name
        self.text = text


class _Continue(Exception):
    pass


class Stub:
    """Base class for caller-supplied objects the interpreted code may touch through attributes, subscripts and calls."""

    def __iter__(self):
        # Without this, Python's fallback iterates any object that has __getitem__ by calling it with 0, 1, 2, ... until IndexError;
        # a recording stand-in answers every position, so list(x) / dict.update(x) / sorted(x) inside a builtin would never return.
        raise Unsupported(f"iteration over the stand-in {type(self).__name__}")


class StubCall(Stub):
    """A plain function handed out by a stub (e.g. a staticmethod of the numpy stand-in)."""

    def __init__(self, f):
        self.f = f


class Record(Stub):
    """An instance of a plain record class of the analysed code (NamedTuple / dataclass with annotated fields only)."""
    _settable = True

    def __init__(self, cls: "RecordClass", values: Dict[str, Any]):
        object.__setattr__(self, "_cls", cls)
        for k, v in values.items():
            object.__setattr__(self, k, v)

    def _values(self):
        return [getattr(self, f) for f in self._cls.fields]

    def __iter__(self):
        if not self._cls.is_tuple:
            raise Unsupported(f"iteration over a {self._cls.name} record")
        return iter(self._values())

    def __getitem__(self, i):
        if not self._cls.is_tuple:
            raise Unsupported(f"subscript of a {self._cls.name} record")
        return self._values()[i]

    def _abs_len(self):
        return len(self._cls.fields)

    @property
    def _fields(self):
        return tuple(self._cls.fields)

    def _replace(self, **kw):
        d = {f: getattr(self, f) for f in self._cls.fields}
        d.update(kw)
        return Record(self._cls, d)

    def _asdict(self):
        return {f: getattr(self, f) for f in self._cls.fields}

    def __eq__(self, o):
        if isinstance(o, Record):
            return o._cls is self._cls and o._values() == self._values()
        if self._cls.is_tuple and isinstance(o, tuple):
            return tuple(self._values()) == o
        return NotImplemented

    def __hash__(self):
        return hash(tuple(map(repr, self._values())))

    def __repr__(self):
        return f"{self._cls.name}({', '.join(f'{f}={getattr(self, f)!r}' for f in self._cls.fields)})"


class RecordClass(Stub):
    def __init__(self, name: str, fields: List[str], defaults: Dict[str, Any], is_tuple: bool):
        self.name, self.fields, self.defaults, self.is_tuple = name, fields, defaults, is_tuple
        self.__name__ = name

    @property
    def _fields(self):
        return tuple(self.fields)

    def _make(self, it):
        return self._abs_call(*list(it))

    def _abs_call(self, *args, **kwargs):
        if len(args) > len(self.fields):
            raise InterpRaised("TypeError", f"{self.name}() takes {len(self.fields)} fields")
        vals = dict(zip(self.fields, args))
        for k, v in kwargs.items():
            if k not in self.fields or k in vals:
                raise InterpRaised("TypeError", f"{self.name}() got an unexpected or repeated field {k}")
            vals[k] = v
        for f in self.fields:
            if f not in vals:
                if f not in self.defaults:
                    raise InterpRaised("TypeError", f"{self.name}() missing field {f}")
                vals[f] = self.defaults[f]
        return Record(self, vals)


def record_class(cnode: ast.ClassDef) -> Optional[RecordClass]:
    """A RecordClass when `cnode` is a NamedTuple or a @dataclass whose body holds nothing but annotated fields with literal defaults."""
    bases = {unparse(b).split(".")[-1] for b in cnode.bases}
    decos = {unparse(d.func if isinstance(d, ast.Call) else d).split(".")[-1] for d in cnode.decorator_list}
    is_tuple = "NamedTuple" in bases
    if not is_tuple and "dataclass" not in decos:
        return None
    if (bases - {"NamedTuple"}) or (decos - {"dataclass"}):
        return None
    fields, defaults = [], {}
    for s in cnode.body:
        if isinstance(s, ast.Expr) and isinstance(s.value, ast.Constant):
            continue
        if isinstance(s, ast.Pass):
            continue
        if isinstance(s, ast.AnnAssign) and isinstance(s.target, ast.Name):
            fields.append(s.target.id)
            if s.value is not None:
                try:
                    defaults[s.target.id] = ast.literal_eval(s.value)
                except (ValueError, TypeError, SyntaxError):
                    return None
            continue
        return None
    return RecordClass(cnode.name, fields, defaults, is_tuple)


BUILTINS: Dict[str, Any] = {
    "len": len, "range": range, "sorted": sorted, "list": list, "set": set, "tuple": tuple, "dict": dict, "max": max, "min": min,
    "sum": sum, "enumerate": enumerate, "zip": zip, "str": str, "int": int, "float": float, "abs": abs, "any": any, "all": all,
    "bool": bool, "reversed": reversed, "frozenset": frozenset, "True": True, "False": False, "None": None, "isinstance": isinstance,
    "iter": iter, "next": next, "slice": slice, "getattr": getattr, "round": round, "repr": repr, "type": type,
}
class ModuleTable(dict):
    """Stand-in for an imported standard-library module: the names of it the interpreter knows."""


def _namedtuple(name, fields, defaults=None, **k):
    if isinstance(fields, str):
        fields = fields.replace(",", " ").split()
    fields = list(fields)
    dv = list(defaults or [])
    return RecordClass(name, fields, dict(zip(fields[len(fields) - len(dv):], dv)), True)


class _MethodCaller(Stub):
    """operator.methodcaller(name, *args, **kwargs)"""

    def __init__(self, name, *a, **k):
        self.name, self.a, self.k = name, a, k

    def _abs_call(self, obj):
        if not isinstance(self.name, str) or self.name.startswith("__"):
            raise Unsupported("methodcaller of a dunder method")
        if not isinstance(obj, (Stub,) + PURE_TYPES):
            raise Unsupported("methodcaller on " + type(obj).__name__)
        m = getattr(obj, self.name)
        if isinstance(m, Stub) and hasattr(m, "_abs_call"):
            return m._abs_call(*self.a, **self.k)
        if isinstance(m, StubCall):
            return m.f(*self.a, **self.k)
        return m(*self.a, **self.k)


class _ItemGetter(Stub):
    def __init__(self, *keys):
        self.keys = keys

    def _abs_call(self, obj):
        vals = [obj[k] for k in self.keys]
        return vals[0] if len(vals) == 1 else tuple(vals)


class _AttrGetter(Stub):
    def __init__(self, *names):
        self.names = names

    def _abs_call(self, obj):
        def get(o, dotted):
            for part in dotted.split("."):
                if part.startswith("__") or not isinstance(o, (Stub,) + PURE_TYPES):
                    raise Unsupported("attrgetter of " + dotted)
                o = getattr(o, part)
            return o
        vals = [get(obj, n) for n in self.names]
        return vals[0] if len(vals) == 1 else tuple(vals)


def _callable(x) -> bool:
    return callable(x) or (isinstance(x, Stub) and hasattr(x, "_abs_call"))


def _setattr(o, name, v):
    if isinstance(o, Stub) and getattr(o, "_settable", False) and isinstance(name, str) and not name.startswith("__"):
        setattr(o, name, v)
        return None
    raise Unsupported(f"setattr on {type(o).__name__}")


def _hasattr(o, name):
    if isinstance(o, (Stub,) + PURE_TYPES) and isinstance(name, str) and not name.startswith("__"):
        try:
            getattr(o, name)
            return True
        except (AttributeError, Unsupported):
            return False
    raise Unsupported(f"hasattr on {type(o).__name__}")


BUILTINS["setattr"] = _setattr
BUILTINS["hasattr"] = _hasattr
BUILTINS["callable"] = _callable
BUILTINS["divmod"] = divmod
BUILTINS["map"] = map
BUILTINS["filter"] = filter


def _reduce(f, xs, *init):
    import functools
    g = f._abs_call if isinstance(f, Stub) and hasattr(f, "_abs_call") else (f.f if isinstance(f, StubCall) else f)
    return functools.reduce(g, xs, *init)


_OPS = {n: getattr(operator, n) for n in ("add", "sub", "mul", "truediv", "floordiv", "mod", "neg", "pos", "not_", "and_", "or_", "xor", "eq", "ne", "lt", "le", "gt", "ge",
                                          "iadd", "isub", "imul", "itruediv", "contains", "getitem", "is_", "is_not", "truth", "abs", "pow")}
MODULES = {"operator": ModuleTable(dict(_OPS, methodcaller=_MethodCaller, itemgetter=_ItemGetter, attrgetter=_AttrGetter)),
           "functools": ModuleTable({"reduce": StubCall(_reduce)}),
           "types": ModuleTable({"MappingProxyType": StubCall(lambda d: dict(d))}),
           "collections": ModuleTable({"namedtuple": StubCall(_namedtuple)}), "itertools": ModuleTable({"product": itertools.product, "combinations": itertools.combinations, "chain": itertools.chain, "permutations": itertools.permutations})}
_BIN = {ast.Add: operator.add, ast.Sub: operator.sub, ast.Mult: operator.mul, ast.Div: operator.truediv, ast.FloorDiv: operator.floordiv,
        ast.Mod: operator.mod, ast.Pow: operator.pow, ast.BitAnd: operator.and_, ast.BitOr: operator.or_, ast.BitXor: operator.xor}
_CMP = {ast.Eq: operator.eq, ast.NotEq: operator.ne, ast.Lt: operator.lt, ast.LtE: operator.le, ast.Gt: operator.gt, ast.GtE: operator.ge,
        ast.In: lambda a, b: a in b, ast.NotIn: lambda a, b: a not in b, ast.Is: lambda a, b: _is(a, b), ast.IsNot: lambda a, b: not _is(a, b)}


def _is(a, b) -> bool:
    """`a is b`; stand-ins for singletons of the analysed code (enum members) say themselves whether they are the same object."""
    h = getattr(type(a), "_abs_is", None) if isinstance(a, Stub) else None   # looked up on the class: stand-ins may answer any attribute
    return h(a, b) if h is not None else a is b
PURE_TYPES = (str, list, dict, set, tuple, frozenset, int, float, bool, type(None), range)
FORBIDDEN_METHODS = {"__class__", "__dict__", "__globals__", "__subclasses__", "format_map"}


_MISSING = object()


class Env:
    def __init__(self, parent: Optional["Env"] = None):
        self.vars: Dict[str, Any] = {}
        self.parent = parent

    def get(self, k: str):
        e = self
        while e is not None:
            if k in e.vars:
                return e.vars[k]
            lk = getattr(e, "lookup", None)
            if lk is not None:
                v = lk(k)
                if v is not _MISSING:
                    return v
            e = e.parent
        raise KeyError(k)

    def set(self, k: str, v: Any):
        self.vars[k] = v


def _is_generator(node) -> bool:
    todo = list(getattr(node, "body", [])) if not isinstance(node, ast.Lambda) else []
    while todo:
        x = todo.pop()
        if isinstance(x, (ast.FunctionDef, ast.AsyncFunctionDef, ast.Lambda, ast.ClassDef)):
            continue
        if isinstance(x, (ast.Yield, ast.YieldFrom)):
            return True
        todo.extend(ast.iter_child_nodes(x))
    return False


class _Generated:
    """What an eagerly run generator function yielded (plus the exception it ended with, if any)."""

    def __init__(self, items, pending):
        self._items, self._pending, self._i = list(items), pending, 0

    def __iter__(self):
        return self

    def __next__(self):
        if self._i < len(self._items):
            self._i += 1
            return self._items[self._i - 1]
        if self._pending is not None:
            p, self._pending = self._pending, None
            raise p
        raise StopIteration


class Function:
    def __init__(self, node, env: Env, interp: "Interp"):
        self.node, self.env, self.interp = node, env, interp

    def __call__(self, *args, **kwargs):
        return self.interp.call_function(self, list(args), kwargs)


class Interp:
    def __init__(self, step_limit: int = 2_000_000):
        self.steps = 0
        self.step_limit = step_limit

    def tick(self):
        self.steps += 1
        if self.steps > self.step_limit:
            raise Unsupported("step limit exceeded")

    # ------------------------------------------------------------------ functions
    def call_function(self, f: Function, args: List[Any], kwargs: Dict[str, Any]):
        node = f.node
        env = Env(f.env)
        a = node.args
        params = [p.arg for p in a.posonlyargs + a.args]
        defaults = a.defaults
        if len(args) > len(params):
            raise Unsupported("too many positional arguments")
        for p, v in zip(params, args):
            env.set(p, v)
        for i, p in enumerate(params[len(args):], start=len(args)):
            if p in kwargs:
                env.set(p, kwargs.pop(p))
            else:
                di = i - (len(params) - len(defaults))
                if di < 0:
                    raise Unsupported(f"missing argument {p}")
                env.set(p, self.ev(defaults[di], f.env))
        for p, d in zip(a.kwonlyargs, a.kw_defaults):
            if p.arg in kwargs:
                env.set(p.arg, kwargs.pop(p.arg))
            elif d is not None:
                env.set(p.arg, self.ev(d, f.env))
            else:
                raise Unsupported(f"missing keyword-only argument {p.arg}")
        if kwargs:
            raise Unsupported(f"unexpected keyword arguments {sorted(kwargs)}")
        if isinstance(node, ast.Lambda):
            return self.ev(node.body, env)
        if _is_generator(node):
            # a generator function: run eagerly, hand out what it yielded; an exception raised after the first yields is raised when
            # the consumer gets that far (approximates laziness for consumers such as next(gen, default))
            got: List[Any] = []
            env.vars["$yield"] = got
            pending = None
            try:
                self.exec_block(node.body, env)
            except _Return:
                pass
            except InterpRaised as e:
                pending = e
            return _Generated(got, pending)
        try:
            self.exec_block(node.body, env)
        except _Return as r:
            return r.v
        return None

    # ------------------------------------------------------------------ statements
    def exec_block(self, stmts, env: Env):
        for s in stmts:
            self.exec_stmt(s, env)

    def exec_stmt(self, s: ast.stmt, env: Env):
        self.tick()
        if isinstance(s, ast.Expr):
            if isinstance(s.value, ast.Constant):
                return
            self.ev(s.value, env)
        elif isinstance(s, ast.FunctionDef):
            env.set(s.name, Function(s, env, self))
        elif isinstance(s, ast.Return):
            raise _Return(self.ev(s.value, env) if s.value is not None else None)
        elif isinstance(s, ast.Assign):
            v = self.ev(s.value, env)
            for t in s.targets:
                self.assign(t, v, env)
        elif isinstance(s, ast.AugAssign):
            cur = self.ev(ast.copy_location(_load(s.target), s.target), env)
            v = self.ev(s.value, env)
            if type(s.op) not in _BIN:
                raise Unsupported(unparse(s))
            self.assign(s.target, _BIN[type(s.op)](cur, v), env)
        elif isinstance(s, ast.If):
            self.exec_block(s.body if self.truth(self.ev(s.test, env)) else s.orelse, env)
        elif isinstance(s, ast.For):
            it = self.ev(s.iter, env)
            broke = False
            for item in self.iterate(it):
                self.assign(s.target, item, env)
                try:
                    self.exec_block(s.body, env)
                except _Break:
                    broke = True
                    break
                except _Continue:
                    continue
            if not broke:
                self.exec_block(s.orelse, env)
        elif isinstance(s, ast.While):
            while self.truth(self.ev(s.test, env)):
                self.tick()
                try:
                    self.exec_block(s.body, env)
                except _Break:
                    break
                except _Continue:
                    continue
        elif isinstance(s, ast.Break):
            raise _Break()
        elif isinstance(s, ast.Continue):
            raise _Continue()
        elif isinstance(s, ast.Pass):
            return
        elif isinstance(s, ast.Try):
            try:
                self.exec_block(s.body, env)
            except InterpRaised as e:
                for h in s.handlers:
                    names = []
                    if h.type is None:
                        names = ["*"]
                    elif isinstance(h.type, ast.Tuple):
                        names = [unparse(x).split(".")[-1] for x in h.type.elts]
                    else:
                        names = [unparse(h.type).split(".")[-1]]
                    if "*" in names or "Exception" in names or "BaseException" in names or e.exc_name.split(".")[-1] in names:
                        if h.name:
                            env.set(h.name, e)
                        self.exec_block(h.body, env)
                        break
                else:
                    self.exec_block(s.finalbody, env)
                    raise
            else:
                self.exec_block(s.orelse, env)
            self.exec_block(s.finalbody, env)
        elif isinstance(s, ast.With):
            for it in s.items:
                v = self.ev(it.context_expr, env)
                if it.optional_vars is not None:
                    self.assign(it.optional_vars, v, env)
            self.exec_block(s.body, env)
        elif isinstance(s, ast.Assert):
            if not self.truth(self.ev(s.test, env)):
                raise InterpRaised("AssertionError", unparse(s.test)[:100])
        elif isinstance(s, ast.AnnAssign):
            if s.value is not None:
                self.assign(s.target, self.ev(s.value, env), env)
        elif isinstance(s, ast.Delete):
            for t in s.targets:
                if isinstance(t, ast.Subscript):
                    base = self.ev(t.value, env)
                    if isinstance(base, (list, dict)) or isinstance(base, Stub):
                        del base[self.ev(t.slice, env)]
                    else:
                        raise Unsupported("del on " + type(base).__name__)
                elif isinstance(t, ast.Name):
                    env.vars.pop(t.id, None) if hasattr(env, "vars") else None
                else:
                    raise Unsupported("del " + unparse(t))
        elif isinstance(s, ast.Raise):
            exc = s.exc
            name = unparse(exc.func) if isinstance(exc, ast.Call) else (unparse(exc) if exc is not None else "re-raise")
            raise InterpRaised(name, unparse(exc)[:120] if exc is not None else "")
        else:
            raise Unsupported(f"statement {type(s).__name__}: {unparse(s)[:60]}")

    def assign(self, t: ast.AST, v: Any, env: Env):
        if isinstance(t, ast.Name):
            env.set(t.id, v)
        elif isinstance(t, (ast.Tuple, ast.List)):
            vals = list(self.iterate(v))
            if len(vals) != len(t.elts):
                raise Unsupported("unpack length")
            for a, b in zip(t.elts, vals):
                self.assign(a, b, env)
        elif isinstance(t, ast.Subscript):
            base = self.ev(t.value, env)
            if isinstance(base, Stub) and hasattr(base, "__setitem__"):
                if isinstance(t.slice, ast.Slice):
                    raise Unsupported("slice store on a stub")
                base[self.ev(t.slice, env)] = v
                return
            if not isinstance(base, (list, dict)):
                raise Unsupported("subscript store on " + type(base).__name__)
            base[self.ev(t.slice, env)] = v
        elif isinstance(t, ast.Attribute):
            base = self.ev(t.value, env)
            if isinstance(base, Stub) and getattr(base, "_settable", False):
                setattr(base, t.attr, v)
                return
            raise Unsupported("attribute store on " + type(base).__name__)
        elif isinstance(t, ast.Starred):
            raise Unsupported("starred target")
        else:
            raise Unsupported("assignment target " + unparse(t))

    def iterate(self, it):
        if isinstance(it, (list, tuple, set, frozenset, dict, str, range)) or hasattr(it, "__next__") or isinstance(it, (itertools.product, zip, enumerate)):
            return it
        if isinstance(it, Stub) and hasattr(it, "__iter__"):
            return it
        if hasattr(it, "__iter__") and type(it).__module__ in ("itertools", "builtins"):
            return it
        raise Unsupported("iteration over " + type(it).__name__)

    @staticmethod
    def truth(v) -> bool:
        return bool(v)

    # ------------------------------------------------------------------ expressions
    def ev(self, e: ast.AST, env: Env) -> Any:
        self.tick()
        if isinstance(e, ast.Constant):
            return e.value
        if isinstance(e, ast.Name):
            try:
                return env.get(e.id)
            except KeyError:
                if e.id in BUILTINS:
                    return BUILTINS[e.id]
                if e.id in MODULES:
                    return MODULES[e.id]
                raise Unsupported(f"unbound name {e.id}")
        if isinstance(e, (ast.List, ast.Tuple, ast.Set)):
            out = []
            for x in e.elts:
                if isinstance(x, ast.Starred):
                    out.extend(self.iterate(self.ev(x.value, env)))
                else:
                    out.append(self.ev(x, env))
            return out if isinstance(e, ast.List) else (tuple(out) if isinstance(e, ast.Tuple) else set(out))
        if isinstance(e, ast.Dict):
            return {self.ev(k, env): self.ev(v, env) for k, v in zip(e.keys, e.values)}
        if isinstance(e, ast.BinOp) and type(e.op) in _BIN:
            return _BIN[type(e.op)](self.ev(e.left, env), self.ev(e.right, env))
        if isinstance(e, ast.UnaryOp):
            v = self.ev(e.operand, env)
            if isinstance(e.op, ast.Not):
                return not self.truth(v)
            if isinstance(e.op, ast.USub):
                return -v
            if isinstance(e.op, ast.Invert):
                return ~v
            raise Unsupported(unparse(e))
        if isinstance(e, ast.BoolOp):
            r = None
            for v in e.values:
                r = self.ev(v, env)
                if isinstance(e.op, ast.And) and not self.truth(r):
                    return r
                if isinstance(e.op, ast.Or) and self.truth(r):
                    return r
            return r
        if isinstance(e, ast.Compare):
            l = self.ev(e.left, env)
            for op, c in zip(e.ops, e.comparators):
                r = self.ev(c, env)
                res = _CMP[type(op)](l, r)
                if isinstance(res, Stub):
                    return res
                if not res:
                    return False
                l = r
            return True
        if isinstance(e, ast.IfExp):
            return self.ev(e.body, env) if self.truth(self.ev(e.test, env)) else self.ev(e.orelse, env)
        if isinstance(e, ast.Subscript):
            base = self.ev(e.value, env)
            if isinstance(e.slice, ast.Slice):
                lo = self.ev(e.slice.lower, env) if e.slice.lower else None
                hi = self.ev(e.slice.upper, env) if e.slice.upper else None
                st = self.ev(e.slice.step, env) if e.slice.step else None
                return base[lo:hi:st]
            k = self.ev(e.slice, env)
            if isinstance(base, PURE_TYPES) or isinstance(base, Stub):
                try:
                    return base[k]
                except (KeyError, IndexError) as ex:
                    if isinstance(base, PURE_TYPES):
                        raise InterpRaised(type(ex).__name__, str(ex)[:80])
                    raise
            raise Unsupported("subscript on " + type(base).__name__)
        if isinstance(e, ast.JoinedStr):
            out = ""
            for p in e.values:
                if isinstance(p, ast.Constant):
                    out += str(p.value)
                elif isinstance(p, ast.FormattedValue):
                    v = self.ev(p.value, env)
                    spec = self.ev(p.format_spec, env) if p.format_spec is not None else ""
                    out += format(v, spec)
            return out
        if isinstance(e, ast.Lambda):
            return Function(e, env, self)
        if isinstance(e, (ast.ListComp, ast.SetComp, ast.GeneratorExp, ast.DictComp)):
            return self.comp(e, env)
        if isinstance(e, ast.Attribute):
            base = self.ev(e.value, env)
            if isinstance(base, ModuleTable):
                if e.attr in base:
                    return base[e.attr]
                raise Unsupported(unparse(e))
            if e.attr in FORBIDDEN_METHODS or e.attr.startswith("__"):
                raise Unsupported("attribute " + e.attr)
            if base is itertools.chain and e.attr == "from_iterable":
                return StubCall(lambda xs: [y for x in self.iterate(xs) for y in self.iterate(x)])
            if base is dict and e.attr == "fromkeys":
                return StubCall(lambda keys, value=None: {k_: value for k_ in self.iterate(keys)})
            if isinstance(base, PURE_TYPES):
                return getattr(base, e.attr)
            if isinstance(base, Stub):
                try:
                    v = getattr(base, e.attr)
                    if callable(v) and not isinstance(v, (Stub, Function)) and getattr(v, "__self__", None) is None:
                        return StubCall(v)
                    return v
                except AttributeError:
                    raise Unsupported(f"stub {type(base).__name__} has no attribute {e.attr}")
            raise Unsupported(f"attribute {e.attr} of {type(base).__name__}")
        if isinstance(e, ast.Call):
            fn = self.ev(e.func, env)
            args = []
            for a in e.args:
                if isinstance(a, ast.Starred):
                    args.extend(self.iterate(self.ev(a.value, env)))
                else:
                    args.append(self.ev(a, env))
            kwargs = {}
            for k in e.keywords:
                if k.arg:
                    kwargs[k.arg] = self.ev(k.value, env)
                else:
                    extra = self.ev(k.value, env)
                    if not isinstance(extra, dict) or not all(isinstance(x, str) for x in extra):
                        raise Unsupported("** of something that is not a dict with string keys")
                    kwargs.update(extra)
            if isinstance(fn, Function):
                return fn(*args, **kwargs)
            if isinstance(fn, StubCall):
                return fn.f(*args, **kwargs)
            if isinstance(fn, Stub) and hasattr(fn, "_abs_call"):
                return fn._abs_call(*args, **kwargs)
            # key=lambda for sorted/max/min: wrap interpreted functions
            if "key" in kwargs and isinstance(kwargs["key"], Function):
                kf = kwargs["key"]
                kwargs["key"] = lambda x: kf(x)
            if fn is isinstance and len(args) == 2:
                hook = getattr(args[0], "_abs_isinstance", None)
                if hook is not None:
                    return hook(args[1])
                if isinstance(args[1], Stub) or (isinstance(args[1], tuple) and any(isinstance(x, Stub) for x in args[1])):
                    return False
            if fn is len and len(args) == 1 and isinstance(args[0], Stub) and hasattr(args[0], "_abs_len"):
                return args[0]._abs_len()
            if (fn is int or fn is float) and len(args) == 1 and isinstance(args[0], Stub) and hasattr(args[0], "_abs_cast"):
                return args[0]._abs_cast(fn.__name__)
            if fn is type and len(args) == 1 and hasattr(args[0], "_abs_type"):
                return args[0]._abs_type
            if fn is getattr and len(args) in (2, 3) and isinstance(args[0], Stub) and isinstance(args[1], str):
                if args[1].startswith("__"):
                    raise Unsupported("getattr of dunder")
                if hasattr(args[0], args[1]):
                    return getattr(args[0], args[1])
                if len(args) == 3:
                    return args[2]
                raise Unsupported(f"stub {type(args[0]).__name__} has no attribute {args[1]}")
            if any(fn is b for b in BUILTINS.values()) or any(fn is b for m in MODULES.values() for b in m.values()):
                if any(fn is b for b in (sorted, list, set, tuple, max, min, sum, any, all, enumerate, zip, frozenset, reversed, dict)) and args and not isinstance(args[0], PURE_TYPES):
                    args[0] = list(self.iterate(args[0]))
                return fn(*args, **kwargs)
            owner = getattr(fn, "__self__", None)
            if owner is not None and (isinstance(owner, PURE_TYPES) or isinstance(owner, Stub)):
                return fn(*args, **kwargs)
            if isinstance(fn, type) and issubclass(fn, Stub):
                return fn(*args, **kwargs)
            if isinstance(fn, StubCall):
                return fn.f(*args, **kwargs)
            if isinstance(fn, Stub) and hasattr(fn, "_abs_call"):
                return fn._abs_call(*args, **kwargs)
            raise Unsupported("call of " + unparse(e.func))
        if isinstance(e, ast.NamedExpr):
            v = self.ev(e.value, env)
            self.assign(e.target, v, env)
            return v
        if isinstance(e, ast.Slice):
            return slice(self.ev(e.lower, env) if e.lower is not None else None, self.ev(e.upper, env) if e.upper is not None else None,
                         self.ev(e.step, env) if e.step is not None else None)
        if isinstance(e, ast.Yield):
            try:
                env.get("$yield").append(self.ev(e.value, env) if e.value is not None else None)
            except KeyError:
                raise Unsupported("yield outside an interpreted generator function")
            return None
        if isinstance(e, ast.YieldFrom):
            try:
                env.get("$yield").extend(list(self.iterate(self.ev(e.value, env))))
            except KeyError:
                raise Unsupported("yield from outside an interpreted generator function")
            return None
        if isinstance(e, ast.Starred):
            raise Unsupported("starred")
        raise Unsupported(f"expression {type(e).__name__}: {unparse(e)[:60]}")

    def comp(self, e, env: Env):
        out = []
        inner = Env(env)

        def rec(i):
            if i == len(e.generators):
                if isinstance(e, ast.DictComp):
                    out.append((self.ev(e.key, inner), self.ev(e.value, inner)))
                else:
                    out.append(self.ev(e.elt, inner))
                return
            g = e.generators[i]
            for item in self.iterate(self.ev(g.iter, inner)):
                self.tick()
                self.assign(g.target, item, inner)
                if all(self.truth(self.ev(c, inner)) for c in g.ifs):
                    rec(i + 1)
        rec(0)
        if isinstance(e, ast.DictComp):
            return dict(out)
        if isinstance(e, ast.SetComp):
            return set(out)
        return out


def _load(t: ast.AST) -> ast.AST:
    import copy
    n = copy.deepcopy(t)
    for x in ast.walk(n):
        if hasattr(x, "ctx"):
            x.ctx = ast.Load()
    return n
