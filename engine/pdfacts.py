"""The trusted table of third-party (pandas / NumPy / scikit-learn) facts the rules rely on (DESIGN G7).
Each entry carries its one-line justification; the table is printed into every evidence file that uses it."""
from __future__ import annotations

import ast
from typing import Optional

from .index import unparse

# methods of DataFrame / Series / Index / ndarray that return a NEW object (never a view of the receiver's data
# that a later in-place store could write through) in the declared pandas range (>= 1.1)
FRESH_METHODS = {
    "copy", "deepcopy", "rename", "dropna", "reindex", "merge", "join", "to_frame", "resample", "sum", "mean", "first",
    "last", "astype", "tz_convert", "tz_localize", "reset_index", "sort_index", "sort_values", "drop", "assign",
    "union", "fillna", "ffill", "bfill", "interpolate", "asfreq", "groupby", "agg", "aggregate", "apply", "map",
    "isin", "notna", "isna", "isnull", "notnull", "abs", "diff", "median", "quantile", "count", "min", "max",
    "normalize", "replace", "strftime", "get_indexer", "duplicated", "total_seconds", "any", "all", "to_list",
    "tolist", "get_loc", "first_valid_index", "last_valid_index", "startswith", "rename_axis", "stack", "unstack",
    "pivot_table", "pivot", "nunique", "drop_duplicates", "set_index", "shift", "rolling", "cumsum", "clip", "round",
    "where", "mask", "query", "head", "tail", "sample", "transpose", "to_numpy", "flatten", "to_series", "unique",
    "value_counts", "std", "var", "add", "sub", "mul", "div", "floor", "ceil", "to_period", "to_timestamp", "melt",
    "explode", "combine_first", "update_copy", "items", "keys", "to_dict", "to_json", "dot", "corr", "autocorr",
    "skew", "kurtosis", "idxmax", "idxmin", "nlargest", "nsmallest", "between", "eq", "ne", "lt", "gt", "le", "ge",
    "difference", "intersection", "append", "insert_copy", "repeat", "get_level_values", "droplevel", "squeeze_copy",
    "transform", "filter", "select_dtypes", "infer_objects", "convert_dtypes", "pipe", "asof", "truncate", "take",
    "lower", "upper", "strip", "split", "format", "total_seconds", "date", "time", "isoformat", "get", "pop_copy",
    "reshape_copy", "mean_", "tz_localize", "floor", "is_unique",
}
FRESH_FUNCS = {
    "pd.DataFrame", "pd.Series", "pd.concat", "pd.date_range", "pd.merge", "pd.to_datetime", "pd.Timedelta",
    "pd.Timestamp", "np.array", "np.append", "np.delete", "np.insert", "list", "dict", "set", "len", "pd.merge_asof",
    "pd.cut", "pd.qcut", "pd.get_dummies", "pd.Categorical", "pd.read_json", "pd.DatetimeIndex", "pd.TimedeltaIndex",
    "np.where", "np.isfinite", "np.isnan", "np.zeros", "np.ones", "np.full", "np.empty", "np.arange", "np.linspace",
    "np.concatenate", "np.vstack", "np.hstack", "np.sqrt", "np.abs", "np.sum", "np.mean", "np.square", "np.exp",
    "np.log", "np.clip", "np.copy", "copy", "deepcopy", "copy.copy", "copy.deepcopy", "sorted", "tuple", "str",
    "int", "float", "bool", "range", "enumerate", "zip", "max", "min", "sum", "abs", "round", "np.unique",
    "np.quantile", "np.percentile", "np.median", "np.diff", "np.cumsum", "pd.isna", "pd.isnull", "pd.notna",
    "np.count_nonzero", "np.round", "np.floor", "np.ceil", "np.maximum", "np.minimum", "pd.to_timedelta",
    "pd.Index", "pd.MultiIndex.from_product", "pd.MultiIndex.from_tuples", "np.argmin", "np.argmax", "np.sort",
    "np.argsort", "np.dot", "np.outer", "np.tile", "np.repeat", "np.nanmean", "np.nansum", "np.nanmedian",
    "np.nanstd", "np.std", "np.var", "np.interp", "np.polyfit", "np.polyval", "isinstance", "getattr_copy",
    "frozenset", "np.isclose", "np.allclose", "np.all", "np.any", "np.logical_and", "np.logical_or", "np.logical_not",
}
# attribute accessors that expose the receiver's own storage
ALIAS_ATTRS = {"loc", "iloc", "at", "iat", "index", "values", "columns", "T", "array", "dt", "str"}
# in-place mutators of their receiver
MUTATING_METHODS = {
    "append", "extend", "insert", "remove", "pop", "clear", "update", "sort", "reverse", "setdefault", "add", "discard",
    "fit", "fit_transform", "partial_fit", "fill", "put", "resize", "itemset", "setflags", "popitem",
}
# pandas methods that mutate only with inplace=True
INPLACE_KW_METHODS = {"drop", "rename", "dropna", "fillna", "set_index", "reset_index", "sort_index", "sort_values",
                      "replace", "interpolate", "ffill", "bfill", "drop_duplicates", "clip", "where", "mask", "query", "eval"}
MASK_METHODS = {"isna", "isnull", "notna", "notnull", "isin", "between", "duplicated", "eq", "ne", "lt", "gt", "le", "ge",
                "startswith", "endswith", "contains", "any", "all"}
MASK_FUNCS = {"np.isfinite", "np.isnan", "np.isinf", "pd.isna", "pd.isnull", "pd.notna", "pd.notnull",
              "np.logical_and", "np.logical_or", "np.logical_not", "np.isclose"}
FILL_ONLY_METHODS = {"ffill", "bfill", "fillna", "interpolate", "combine_first"}

FACTS = [
    "DataFrame/Series .copy(), .dropna(), .reindex(), .join(), .rename(), .sort_index(), pd.concat(...) return new objects (no in-place effect on the receiver)",
    "x[mask] with a boolean mask (and x.loc[mask]) returns a copy: a store through it (x[mask][c] = v) never reaches x",
    ".ffill/.bfill/.fillna/.interpolate write only cells that were NaN",
    "list.append/extend/insert/remove/pop/clear/sort, dict.update/setdefault/pop, set.add/discard, df[...] = v, .loc[...] = v, .iloc[...] = v, .index = v, del x[...], inplace=True, estimator.fit mutate their receiver",
    "DataFrame.copy(), Series.to_frame() and column selection share the *index object* with their source in the declared pandas range; setting .freq on it is visible through the source",
    "x[label_slice] / x.loc[a:b] / x.iloc[a:b] may be a view of x in the declared pandas range (>=1.1, before copy-on-write)",
]


def is_mask_expr(e: ast.AST, name_is_mask=None) -> bool:
    """Does `e` denote a boolean mask (elementwise predicate) rather than a label / column key?"""
    if isinstance(e, ast.Compare):
        return not any(isinstance(op, (ast.In, ast.NotIn, ast.Is, ast.IsNot)) for op in e.ops)
    if isinstance(e, ast.UnaryOp) and isinstance(e.op, ast.Invert):
        return is_mask_expr(e.operand, name_is_mask) or True
    if isinstance(e, ast.BinOp) and isinstance(e.op, (ast.BitAnd, ast.BitOr, ast.BitXor)):
        return is_mask_expr(e.left, name_is_mask) or is_mask_expr(e.right, name_is_mask)
    if isinstance(e, ast.Call):
        if isinstance(e.func, ast.Attribute) and e.func.attr in MASK_METHODS:
            return True
        if unparse(e.func) in MASK_FUNCS:
            return True
    if isinstance(e, ast.Name) and name_is_mask is not None:
        return bool(name_is_mask(e))
    return False
