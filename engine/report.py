"""Findings, known-findings matching, evidence files, exit-code policy (0 ok / 1 violation / 2 analysis error)."""
from __future__ import annotations

import json
import os
import re
import time
from collections import OrderedDict
from dataclasses import dataclass, field
from typing import Any, Dict, List, Optional, Tuple

from .index import AnalysisError, Repo
from .resolve import Resolver

VERIF = os.path.dirname(os.path.dirname(os.path.abspath(__file__)))
KNOWN_FILE = os.path.join(VERIF, "KNOWN_FINDINGS.txt")


@dataclass
class Finding:
    prop: str
    rule: str
    key: str  # module:qualname|normalised-construct  (no line numbers)
    where: str  # file:line (diagnostic only, never used for matching)
    message: str
    detail: Any = None
    known: Optional[str] = None  # text of the matching open: line


@dataclass
class RuleState:
    rid: str
    desc: str
    floor: int
    instances: List[str] = field(default_factory=list)
    findings: List[Finding] = field(default_factory=list)
    notes: List[str] = field(default_factory=list)
    samples: List[Any] = field(default_factory=list)
    check: "Check" = None

    def inst(self, key: str, sample: Any = None) -> None:
        self.instances.append(key)
        if sample is not None and len(self.samples) < 4:
            self.samples.append(sample)

    def violate(self, key: str, where: str, message: str, detail: Any = None) -> None:
        self.findings.append(Finding(self.check.prop, self.rid, key, where, message, detail))

    def require(self, cond: bool, key: str, where: str, message: str, detail: Any = None, sample: Any = None) -> bool:
        """One obligation: counted as an instance; a violation if cond is false."""
        self.inst(key, sample if sample is not None else {"key": key, "where": where})
        if not cond:
            self.violate(key, where, message, detail)
        return bool(cond)

    def note(self, msg: str) -> None:
        self.notes.append(msg)


def load_known(path: str = KNOWN_FILE) -> Tuple[List[Dict[str, str]], List[str]]:
    opens, fixed = [], []
    if not os.path.isfile(path):
        return opens, fixed
    with open(path, encoding="utf-8") as fh:
        for line in fh:
            line = line.rstrip("\n")
            if not line.strip() or line.lstrip().startswith("#"):
                continue
            if line.startswith("open:"):
                m = re.match(r"open:\s+property=(\S+)\s+rule=(\S+)\s+key=(.*?)\s+::\s+(.*)$", line)
                if not m:
                    raise AnalysisError(f"malformed line in KNOWN_FINDINGS.txt: {line!r}")
                opens.append({"prop": m.group(1), "rule": m.group(2), "key": m.group(3), "what": m.group(4), "line": line})
            elif line.startswith("fixed:"):
                fixed.append(line)
            else:
                raise AnalysisError(f"malformed line in KNOWN_FINDINGS.txt: {line!r}")
    return opens, fixed


class Check:
    def __init__(self, prop: str, tier: str = "quick", repo_root: str = "/repo", seed: int = 0,
                 evidence_dir: Optional[str] = None, quiet: bool = False):
        self.prop = prop
        self.tier = tier
        self.seed = seed
        self.t0 = time.time()
        self.repo_root = repo_root
        self.repo = Repo(repo_root)
        self.res = Resolver(self.repo)
        self.rules: "OrderedDict[str, RuleState]" = OrderedDict()
        self.assumptions: List[str] = []
        self.not_decided: List[str] = []
        self.explanation: str = ""
        self.trusted: List[str] = []
        self.extra: Dict[str, Any] = {}
        self.evidence_dir = evidence_dir or os.path.join(VERIF, "evidence")
        self.quiet = quiet
        self.selftest: Optional[Dict[str, Any]] = None

    def rule(self, rid: str, desc: str, floor: int = 1) -> RuleState:
        if rid in self.rules:
            return self.rules[rid]
        r = RuleState(rid, desc, floor, check=self)
        self.rules[rid] = r
        return r

    # ------------------------------------------------------------------ finish
    def finish(self) -> int:
        out = []
        opens, fixed = load_known()
        opens = [o for o in opens if o["prop"] == self.prop]
        used_open = set()
        errors: List[str] = []
        n_viol = 0
        n_known = 0
        os.makedirs(self.evidence_dir, exist_ok=True)
        replay_dir = os.path.join(self.evidence_dir, "replay")
        # clear stale replay files of this property
        if os.path.isdir(replay_dir):
            for fn in os.listdir(replay_dir):
                if fn.startswith(self.prop + "-"):
                    os.unlink(os.path.join(replay_dir, fn))
        viol_lines = []
        seen_keys = set()
        for r in self.rules.values():
            status = "ok"
            if len(r.instances) < r.floor and not r.findings:
                errors.append(f"rule {r.rid} matched {len(r.instances)} instance(s), floor is {r.floor}: {r.desc}")
                status = "analysis-error"
            uniq = []
            for f in r.findings:
                if (f.rule, f.key) in seen_keys:
                    continue
                seen_keys.add((f.rule, f.key))
                uniq.append(f)
            r.findings = uniq
            for f in r.findings:
                match = next((o for o in opens if o["rule"] == f.rule and o["key"] == f.key), None)
                if match is not None:
                    f.known = match["what"]
                    used_open.add(match["line"])
                    n_known += 1
                    if status == "ok":
                        status = "known"
                else:
                    n_viol += 1
                    status = "violation"
                    os.makedirs(replay_dir, exist_ok=True)
                    rp = os.path.join(replay_dir, f"{self.prop}-{n_viol}.json")
                    with open(rp, "w", encoding="utf-8") as fh:
                        json.dump({"property": self.prop, "rule": f.rule, "key": f.key, "where": f.where,
                                   "message": f.message, "detail": f.detail, "rule_description": r.desc,
                                   "repo": self.repo_root}, fh, indent=1, default=str)
                    viol_lines.append((f, rp))
            out.append(f"RULE {r.rid} instances={len(r.instances)} floor={r.floor} status={status} :: {r.desc}")
            for nmsg in r.notes:
                out.append(f"  note: {nmsg}")
        for r in self.rules.values():
            for f in r.findings:
                if f.known is not None:
                    out.append(f"KNOWN-FINDING: property={self.prop} {f.known} [{f.rule} {f.key} @ {f.where}]")
        stale = [o for o in opens if o["line"] not in used_open]
        for o in stale:
            out.append(f"note: open known finding no longer reproduced (repaired?): rule={o['rule']} key={o['key']}")
        for f, rp in viol_lines:
            out.append(f"  {f.rule} {f.where} [{f.key}]: {f.message}")
            out.append(f"VIOLATION property={self.prop} replay={rp}")
        wall = time.time() - self.t0
        code = 0
        for e in errors:
            out.append(f"ANALYSIS-ERROR property={self.prop} {e}")
        fatal = self.extra.get("fatal_analysis_error") if hasattr(self, "extra") else None
        if n_viol:
            code = 1  # a concrete violation outranks an unmet floor elsewhere
        elif errors or fatal:
            code = 2
        self._write_evidence(wall, n_viol, n_known, errors, stale)
        if not self.quiet:
            print("\n".join(out))
            print(f"SUMMARY property={self.prop} tier={self.tier} rules={len(self.rules)} "
                  f"instances={sum(len(r.instances) for r in self.rules.values())} violations={n_viol} known={n_known} "
                  f"exit={code} wall_s={wall:.2f}")
        self.exit_code = code
        self.n_viol = n_viol
        return code

    def _write_evidence(self, wall, n_viol, n_known, errors, stale):
        insts = [k for r in self.rules.values() for k in r.instances]
        obligations = len(insts)
        failed = sum(len(r.findings) for r in self.rules.values())
        samples = []
        for r in self.rules.values():
            for s in r.samples[:2]:
                samples.append({"rule": r.rid, "instance": s})
        if not samples:
            samples = [{"rule": r.rid, "instance": r.instances[0]} for r in self.rules.values() if r.instances][:5]
        cg = self.res._cg
        cov = {
            "explanation": self.explanation or "static analysis of the repository source (ast); see rules",
            "obligations": obligations,
            "discharged": max(obligations - failed, 0),
            "evaluations": max(obligations, 1),
            "distinct_nontrivial": len(set(insts)),
            "rule": "one evaluation = one rule instance (a concrete construct in /repo: call site, table row, "
                    "field declaration, CFG path, abstract state) against which a rule's obligation was decided; "
                    "distinct = distinct instance keys; every instance is non-trivial in that it names a construct "
                    "found in the source on this run (rules that matched nothing contribute nothing)",
            "samples": samples[:12],
            "exhaustive": True,
            "rules": [
                {"id": r.rid, "description": r.desc, "instances": len(r.instances), "floor": r.floor,
                 "violations": sum(1 for f in r.findings if f.known is None),
                 "known_findings": sum(1 for f in r.findings if f.known is not None),
                 "notes": r.notes[:20]}
                for r in self.rules.values()
            ],
            "known_findings_matched": [
                {"rule": f.rule, "key": f.key, "where": f.where, "what": f.known}
                for r in self.rules.values() for f in r.findings if f.known is not None
            ],
            "unlisted_violations": [
                {"rule": f.rule, "key": f.key, "where": f.where, "message": f.message}
                for r in self.rules.values() for f in r.findings if f.known is None
            ],
            "stale_known_findings": [o["line"] for o in stale],
            "analysis_errors": errors,
            "files_analysed": len(self.repo.package_modules()),
            "files_consulted": dict(sorted(self.repo.consulted.items())),
            "functions_indexed": sum(len(m.all_funcs) for m in self.repo.package_modules()),
            "call_graph": ({"nodes": cg.number_of_nodes(), "edges": cg.number_of_edges(),
                            "calls_resolved_in_repo": self.res.resolved_calls,
                            "calls_external": self.res.external_calls,
                            "calls_unresolved": self.res.unresolved_calls} if cg is not None else None),
            "trusted_base": self.trusted,
            "not_decided": self.not_decided,
            "repo_root": self.repo_root,
            "checker_cmd": f"python3-vt /verif/check.py {self.prop} --tier {self.tier}",
        }
        cov.update(self.extra)
        if self.selftest is not None:
            cov["selftest"] = self.selftest
        ev = {
            "property_id": self.prop,
            "tier": self.tier,
            "seed": int(self.seed),
            "level": "other",
            "coverage": cov,
            "assumptions": self.assumptions + ["not decided by this check: " + x for x in self.not_decided],
            "wall_s": round(wall, 3),
            "violations": n_viol,
        }
        path = os.path.join(self.evidence_dir, f"{self.prop}.json")
        tmp = path + ".tmp"
        with open(tmp, "w", encoding="utf-8") as fh:
            json.dump(ev, fh, indent=1, default=str)
        os.replace(tmp, path)
