"""Repository index: parses every *.py under <repo>/opendsm (and, on request, tests/ and docs/)
and exposes modules, classes, functions, import alias maps and module constants.

Nothing from the analysed repository is ever imported or executed; `ast` only.
"""
from __future__ import annotations

import ast
import hashlib
import os
from dataclasses import dataclass, field
from typing import Dict, Iterator, List, Optional, Tuple


class AnalysisError(Exception):
    """An anchor vanished or the analyser cannot do its job: exit code 2, never a verdict."""


FuncNode = (ast.FunctionDef, ast.AsyncFunctionDef)


@dataclass
class FuncInfo:
    name: str
    qualname: str  # "Class.method" or "func" or "outer.<locals>.inner"
    node: ast.AST
    module: "Module"
    cls: Optional["ClassInfo"] = None
    parent_func: Optional["FuncInfo"] = None

    @property
    def key(self) -> str:
        return f"{self.module.name}:{self.qualname}"

    @property
    def params(self) -> List[str]:
        a = self.node.args
        return [x.arg for x in a.posonlyargs + a.args + a.kwonlyargs]

    def param_defaults(self) -> Dict[str, ast.AST]:
        a = self.node.args
        pos = a.posonlyargs + a.args
        out = {}
        for p, d in zip(pos[len(pos) - len(a.defaults):], a.defaults):
            out[p.arg] = d
        for p, d in zip(a.kwonlyargs, a.kw_defaults):
            if d is not None:
                out[p.arg] = d
        return out

    @property
    def decorators(self) -> List[str]:
        return [ast.unparse(d) for d in self.node.decorator_list]

    def where(self, node: Optional[ast.AST] = None) -> str:
        ln = getattr(node, "lineno", None) if node is not None else self.node.lineno
        return f"{self.module.rel}:{ln}"

    def __hash__(self):
        return hash(self.key)

    def __eq__(self, other):
        return isinstance(other, FuncInfo) and other.key == self.key


@dataclass
class ClassInfo:
    name: str
    node: ast.ClassDef
    module: "Module"
    methods: Dict[str, FuncInfo] = field(default_factory=dict)
    # class-level assignments: name -> (annotation or None, value or None, stmt)
    attrs: Dict[str, Tuple[Optional[ast.AST], Optional[ast.AST], ast.stmt]] = field(default_factory=dict)

    @property
    def key(self) -> str:
        return f"{self.module.name}:{self.name}"

    def __hash__(self):
        return hash(self.key)

    def __eq__(self, other):
        return isinstance(other, ClassInfo) and other.key == self.key


@dataclass
class Module:
    name: str  # dotted
    path: str
    rel: str  # relative to repo root
    src: str
    tree: ast.Module
    sha256: str
    is_package: bool
    imports: Dict[str, str] = field(default_factory=dict)  # local alias -> dotted target
    star_imports: List[str] = field(default_factory=list)
    functions: Dict[str, FuncInfo] = field(default_factory=dict)
    classes: Dict[str, ClassInfo] = field(default_factory=dict)
    constants: Dict[str, ast.AST] = field(default_factory=dict)  # top-level NAME = expr
    all_funcs: List[FuncInfo] = field(default_factory=list)  # incl. methods and nested
    _parents: Optional[Dict[int, ast.AST]] = None

    def parent(self, node: ast.AST) -> Optional[ast.AST]:
        if self._parents is None:
            p = {}
            for n in ast.walk(self.tree):
                for c in ast.iter_child_nodes(n):
                    p[id(c)] = n
            self._parents = p
        return self._parents.get(id(node))

    def ancestors(self, node: ast.AST) -> Iterator[ast.AST]:
        n = self.parent(node)
        while n is not None:
            yield n
            n = self.parent(n)

    def enclosing_stmt(self, node: ast.AST) -> Optional[ast.stmt]:
        if isinstance(node, ast.stmt):
            return node
        for a in self.ancestors(node):
            if isinstance(a, ast.stmt):
                return a
        return None


def _resolve_relative(modname: str, is_package: bool, level: int, target: Optional[str]) -> str:
    parts = modname.split(".")
    if not is_package:
        parts = parts[:-1]
    if level > 1:
        parts = parts[: len(parts) - (level - 1)]
    base = ".".join(parts)
    if target:
        return f"{base}.{target}" if base else target
    return base


_KNOWN: Optional[tuple] = None


def _known_tables() -> tuple:
    """spec/known_functions.json: names of the functions and module constants the rules were written against (engine/inline.py)."""
    global _KNOWN
    if _KNOWN is None:
        import json
        p = os.path.join(os.path.dirname(os.path.dirname(os.path.abspath(__file__))), "spec", "known_functions.json")
        try:
            d = json.load(open(p))
            _KNOWN = (set(d["functions"]), set(d.get("constants", [])), d.get("signatures", {}))
        except (OSError, ValueError, KeyError):
            _KNOWN = (set(), set(), {})
    return _KNOWN


class Repo:
    """Parsed view of the repository at `root` (default /repo)."""

    def __init__(self, root: str = "/repo", package: str = "opendsm"):
        self.root = os.path.abspath(root)
        self.package = package
        self.modules: Dict[str, Module] = {}
        self.by_rel: Dict[str, Module] = {}
        self.consulted: Dict[str, str] = {}  # rel -> sha256 (files a check actually looked at)
        self.parse_failures: List[str] = []
        self.inline_log: List[str] = []  # helper-transparency pre-pass (engine/inline.py)
        self.removed_helpers: Dict[str, list] = {}
        pkg_dir = os.path.join(self.root, package)
        if not os.path.isdir(pkg_dir):
            raise AnalysisError(f"package directory missing: {pkg_dir}")
        paths = []
        for dirpath, dirnames, filenames in os.walk(pkg_dir):
            dirnames[:] = sorted(d for d in dirnames if d != "__pycache__")
            for fn in sorted(filenames):
                if fn.endswith(".py"):
                    paths.append(os.path.join(dirpath, fn))
        parsed = [self._parse(p) for p in paths]
        known_f, known_c, known_sigs = _known_tables()
        if known_f:
            from .inline import inline_package
            trees = {name: tree for (path, rel, name, is_pkg, src, tree, sha) in parsed}
            pk = {name: is_pkg for (path, rel, name, is_pkg, src, tree, sha) in parsed}
            self.inline_log = inline_package(trees, pk, known_f, known_c, known_sigs)
            from .inline import REMOVED
            self.removed_helpers = {k: list(v) for k, v in REMOVED.items()}
            parsed = [(path, rel, name, is_pkg, src, trees[name], sha) for (path, rel, name, is_pkg, src, tree, sha) in parsed]
        for rec in parsed:
            self._register(*rec)
        if len(self.modules) < 40:
            raise AnalysisError(f"only {len(self.modules)} modules parsed under {pkg_dir}; expected the whole package")

    # ------------------------------------------------------------------ loading
    def _parse(self, path: str):
        rel = os.path.relpath(path, self.root)
        with open(path, "rb") as fh:
            raw = fh.read()
        sha = hashlib.sha256(raw).hexdigest()
        try:
            src = raw.decode("utf-8")
            tree = ast.parse(src, filename=path)
        except (SyntaxError, UnicodeDecodeError) as e:  # the build would fail too
            self.parse_failures.append(f"{rel}: {e}")
            raise AnalysisError(f"cannot parse {rel}: {e}")
        parts = rel[:-3].split(os.sep)
        is_pkg = parts[-1] == "__init__"
        if is_pkg:
            parts = parts[:-1]
        name = ".".join(parts)
        return path, rel, name, is_pkg, src, tree, sha

    def _register(self, path, rel, name, is_pkg, src, tree, sha) -> Module:
        m = Module(name=name, path=path, rel=rel, src=src, tree=tree, sha256=sha, is_package=is_pkg)
        self._index_module(m)
        self.modules[name] = m
        self.by_rel[rel] = m
        return m

    def _load(self, path: str) -> Optional[Module]:
        return self._register(*self._parse(path))

    def load_extra(self, rel: str) -> Module:
        """Parse a file outside the package (tests/, docs are handled as text) as an oracle."""
        if rel in self.by_rel:
            return self.by_rel[rel]
        path = os.path.join(self.root, rel)
        if not os.path.isfile(path):
            raise AnalysisError(f"oracle file missing: {rel}")
        return self._load(path)

    def read_text(self, rel: str) -> str:
        path = os.path.join(self.root, rel)
        if not os.path.isfile(path):
            raise AnalysisError(f"file missing: {rel}")
        with open(path, "rb") as fh:
            raw = fh.read()
        self.consulted[rel] = hashlib.sha256(raw).hexdigest()
        return raw.decode("utf-8")

    def _index_module(self, m: Module) -> None:
        for st in m.tree.body:
            self._index_stmt(m, st)
        # nested imports inside try/if at module level
        for st in m.tree.body:
            if isinstance(st, (ast.Try, ast.If)):
                for sub in ast.walk(st):
                    if isinstance(sub, (ast.Import, ast.ImportFrom)):
                        self._index_import(m, sub)
                    elif isinstance(sub, FuncNode) and sub.name not in m.functions:
                        self._add_func(m, sub, None, None, sub.name)
                    elif isinstance(sub, ast.ClassDef) and sub.name not in m.classes:
                        self._add_class(m, sub)

    def _index_import(self, m: Module, st: ast.stmt) -> None:
        if isinstance(st, ast.Import):
            for a in st.names:
                if a.asname:
                    m.imports[a.asname] = a.name
                else:
                    m.imports[a.name.split(".")[0]] = a.name.split(".")[0]
        elif isinstance(st, ast.ImportFrom):
            base = _resolve_relative(m.name, m.is_package, st.level, st.module) if st.level else (st.module or "")
            for a in st.names:
                if a.name == "*":
                    m.star_imports.append(base)
                else:
                    m.imports[a.asname or a.name] = f"{base}.{a.name}"

    def _index_stmt(self, m: Module, st: ast.stmt) -> None:
        if isinstance(st, (ast.Import, ast.ImportFrom)):
            self._index_import(m, st)
        elif isinstance(st, FuncNode):
            self._add_func(m, st, None, None, st.name)
        elif isinstance(st, ast.ClassDef):
            self._add_class(m, st)
        elif isinstance(st, ast.Assign):
            for t in st.targets:
                if isinstance(t, ast.Name):
                    m.constants[t.id] = st.value
        elif isinstance(st, ast.AnnAssign) and isinstance(st.target, ast.Name) and st.value is not None:
            m.constants[st.target.id] = st.value

    def _add_func(self, m: Module, node, cls: Optional[ClassInfo], parent: Optional[FuncInfo], qual: str) -> FuncInfo:
        fi = FuncInfo(name=node.name, qualname=qual, node=node, module=m, cls=cls, parent_func=parent)
        m.all_funcs.append(fi)
        if cls is None and parent is None:
            m.functions[node.name] = fi
        # nested functions
        for sub in self._direct_nested_defs(node):
            self._add_func(m, sub, cls, fi, f"{qual}.<locals>.{sub.name}")
        return fi

    @staticmethod
    def _direct_nested_defs(node) -> List[ast.AST]:
        out = []
        stack = list(node.body)
        while stack:
            s = stack.pop()
            if isinstance(s, FuncNode):
                out.append(s)
                continue
            if isinstance(s, ast.ClassDef):
                continue
            for c in ast.iter_child_nodes(s):
                if isinstance(c, ast.stmt):
                    stack.append(c)
                elif isinstance(c, ast.ExceptHandler):
                    stack.extend(c.body)
        return out

    def _add_class(self, m: Module, node: ast.ClassDef) -> ClassInfo:
        ci = ClassInfo(name=node.name, node=node, module=m)
        for st in node.body:
            if isinstance(st, FuncNode):
                fi = self._add_func(m, st, ci, None, f"{node.name}.{st.name}")
                # property setters etc. share a name: keep the first plain def, list others
                ci.methods.setdefault(st.name, fi)
            elif isinstance(st, ast.Assign):
                for t in st.targets:
                    if isinstance(t, ast.Name):
                        ci.attrs[t.id] = (None, st.value, st)
            elif isinstance(st, ast.AnnAssign) and isinstance(st.target, ast.Name):
                ci.attrs[st.target.id] = (st.annotation, st.value, st)
        m.classes[node.name] = ci
        return ci

    # ------------------------------------------------------------------ lookup helpers
    def module(self, name_or_rel: str) -> Module:
        m = self.modules.get(name_or_rel) or self.by_rel.get(name_or_rel)
        if m is None:
            raise AnalysisError(f"anchor module vanished: {name_or_rel}")
        self.consulted[m.rel] = m.sha256
        return m

    def cls(self, module: str, name: str) -> ClassInfo:
        m = self.module(module)
        c = m.classes.get(name)
        if c is None:
            raise AnalysisError(f"anchor class vanished: {module}:{name}")
        return c

    def func(self, module: str, qual: str) -> FuncInfo:
        """qual: 'f' or 'Class.method' (or 'Class.method.<locals>.inner')."""
        m = self.module(module)
        for fi in m.all_funcs:
            if fi.qualname == qual:
                return fi
        # moved to another module of the package (and imported back, or used from there): a private module-level function with this
        # name that exists exactly once elsewhere is the same function
        if "." in qual and "<locals>" not in qual:
            # a method turned into a module-level function of the same module (engine/inline.py gives it its old name back)
            leaf = qual.split(".")[-1]
            if leaf in m.functions:
                return m.functions[leaf]
        if "." not in qual:
            hits = [fi for mm in self.modules.values() if mm is not m for fi in mm.all_funcs if fi.qualname == qual]
            if len(hits) == 1:
                self.consulted[hits[0].module.rel] = hits[0].module.sha256
                return hits[0]
        raise AnalysisError(f"anchor function vanished: {module}:{qual}")

    def try_func(self, module: str, qual: str) -> Optional[FuncInfo]:
        try:
            return self.func(module, qual)
        except AnalysisError:
            return None

    def all_functions(self) -> Iterator[FuncInfo]:
        for m in self.modules.values():
            if m.name.startswith(self.package):
                yield from m.all_funcs

    def package_modules(self) -> List[Module]:
        return [m for m in self.modules.values() if m.name == self.package or m.name.startswith(self.package + ".")]

    def consult_all(self) -> None:
        for m in self.package_modules():
            self.consulted[m.rel] = m.sha256


# ---------------------------------------------------------------------- small AST helpers
def unparse(node: Optional[ast.AST]) -> str:
    if node is None:
        return ""
    return " ".join(ast.unparse(node).split())


def walk_no_nested(node: ast.AST, include_root_body_only: bool = True) -> Iterator[ast.AST]:
    """Walk a function body without descending into nested function / class definitions
    (lambdas are descended into: they are expressions evaluated in place or closures of interest)."""
    stack = list(ast.iter_child_nodes(node))
    while stack:
        n = stack.pop()
        yield n
        if isinstance(n, FuncNode) or isinstance(n, ast.ClassDef):
            continue
        stack.extend(ast.iter_child_nodes(n))


def stmts_in(node: ast.AST) -> Iterator[ast.stmt]:
    for n in walk_no_nested(node):
        if isinstance(n, ast.stmt):
            yield n


def calls_in(node: ast.AST) -> Iterator[ast.Call]:
    for n in walk_no_nested(node):
        if isinstance(n, ast.Call):
            yield n


def attr_chain(e: ast.AST) -> Optional[List[str]]:
    """a.b.c -> ['a','b','c']; None if the base is not a plain name."""
    out = []
    while isinstance(e, ast.Attribute):
        out.append(e.attr)
        e = e.value
    if isinstance(e, ast.Name):
        out.append(e.id)
        return list(reversed(out))
    return None


def root_of(e: ast.AST) -> ast.AST:
    """Strip subscripts/attributes/calls-on-receiver down to the root expression."""
    while True:
        if isinstance(e, (ast.Subscript, ast.Attribute)):
            e = e.value
        elif isinstance(e, ast.Starred):
            e = e.value
        else:
            return e


def const_str(e: ast.AST) -> Optional[str]:
    if isinstance(e, ast.Constant) and isinstance(e.value, str):
        return e.value
    return None


def is_self_attr(e: ast.AST, name: Optional[str] = None, self_name: str = "self") -> bool:
    return (
        isinstance(e, ast.Attribute)
        and isinstance(e.value, ast.Name)
        and e.value.id == self_name
        and (name is None or e.attr == name)
    )


def call_name(c: ast.Call) -> str:
    return unparse(c.func)


def kwarg(c: ast.Call, name: str) -> Optional[ast.AST]:
    for k in c.keywords:
        if k.arg == name:
            return k.value
    return None
