"""Expression normalisation: Python arithmetic / pandas-reduction expressions -> sympy terms over named atoms.

Sympy is used only as a term normaliser (field axioms on positive symbols, uninterpreted functions for
reductions such as Sum, Mean, Len, Var0, IQ, Corr); no path condition is ever sent to a solver and nothing
of the analysed repository is executed."""
from __future__ import annotations

import ast
from typing import Any, Callable, Dict, List, Optional, Tuple

import sympy as sp

from .index import unparse


class Unsupported(Exception):
    pass


class NoneResult(Exception):
    """The function returns None on this path."""


_FUN: Dict[str, sp.Function] = {}


def fun(name: str):
    if name not in _FUN:
        _FUN[name] = sp.Function(name)
    return _FUN[name]


def sym(name: str):
    return sp.Symbol(name, positive=True)


def num(v) -> sp.Expr:
    if isinstance(v, bool):
        raise Unsupported("bool constant")
    if isinstance(v, int):
        return sp.Integer(v)
    if isinstance(v, float):
        return sp.nsimplify(v, rational=True)
    raise Unsupported(f"constant {v!r}")


REDUCTIONS = {"sum": "Sum", "mean": "Mean", "median": "Median", "skew": "Skew", "kurtosis": "Kurt", "kurt": "Kurt", "abs": "Abs",
              "min": "Min_", "max": "Max_", "count": "Count", "std": "Std1", "nunique": "NUnique"}
NP_FUNCS = {"np.sum": "Sum", "np.mean": "Mean", "np.abs": "Abs", "abs": "Abs", "np.median": "Median", "np.nanmean": "NanMean", "np.nansum": "NanSum",
            "np.absolute": "Abs", "np.std": "Std0", "np.var": "Var0"}


KNOWN_REF_FUNCS = {"Sum", "Mean", "Len", "Var0", "Abs", "Median", "Skew", "Kurt", "Autocorr1", "IQ", "Corr", "SafeDiv", "FiniteOr", "Max", "Min",
                   "Unique", "NUnique", "MAD", "TStat", "Std0", "Std1", "Count", "NanMean", "NanSum"}


class Converter:
    """hooks:
       attr_hook(node) -> sympy expr | None    resolves self.<x>, self.<obj>.<x>, other attribute chains
       name_env: local names -> sympy expr / python object
       bind: attribute text -> python constant, used to decide branch conditions concretely"""

    def __init__(self, attr_hook: Optional[Callable[[ast.AST, "Converter"], Any]] = None, bind: Optional[Dict[str, Any]] = None,
                 call_hook: Optional[Callable[[ast.Call, "Converter"], Any]] = None):
        self.attr_hook = attr_hook
        self.call_hook = call_hook
        self.bind = bind or {}
        self.env: Dict[str, Any] = {}

    # ------------------------------------------------------------------ expressions
    def conv(self, e: ast.AST) -> Any:
        if isinstance(e, ast.Constant):
            if e.value is None:
                return None
            if isinstance(e.value, str):
                return e.value
            return num(e.value)
        if isinstance(e, ast.Name):
            if e.id in self.env:
                return self.env[e.id]
            if e.id in self.bind:
                return self.bind[e.id]
            return sym(e.id)
        if isinstance(e, ast.UnaryOp):
            v = self.conv(e.operand)
            if isinstance(e.op, ast.USub):
                return -v
            if isinstance(e.op, ast.UAdd):
                return v
            raise Unsupported(unparse(e))
        if isinstance(e, ast.BinOp):
            l, r = self.conv(e.left), self.conv(e.right)
            if l is None or r is None:
                raise Unsupported("arithmetic on None: " + unparse(e))
            if isinstance(l, (list, tuple, str)) or isinstance(r, (list, tuple, str)):
                raise Unsupported(unparse(e))
            if isinstance(e.op, ast.Add):
                return l + r
            if isinstance(e.op, ast.Sub):
                return l - r
            if isinstance(e.op, ast.Mult):
                return l * r
            if isinstance(e.op, ast.Div):
                return l / r
            if isinstance(e.op, ast.Pow):
                return l ** r
            raise Unsupported(unparse(e))
        if isinstance(e, (ast.List, ast.Tuple)):
            return [self.conv(x) for x in e.elts]
        if isinstance(e, ast.Attribute):
            t = unparse(e)
            if t in self.bind:
                return self.bind[t]
            if self.attr_hook is not None:
                r = self.attr_hook(e, self)
                if r is not None:
                    return r
            base = self.conv(e.value)
            if isinstance(base, sp.Symbol):
                return sym(f"{base.name}.{e.attr}")
            raise Unsupported(t)
        if isinstance(e, ast.Subscript):
            # np.diff(np.quantile(X, [a, b]))[0]
            if isinstance(e.value, ast.Call) and unparse(e.value.func) == "np.diff" and unparse(e.slice) == "0" and len(e.value.args) == 1:
                q = e.value.args[0]
                if isinstance(q, ast.Call) and unparse(q.func) in ("np.quantile", "np.nanquantile") and len(q.args) == 2 and isinstance(q.args[1], (ast.List, ast.Tuple)) and len(q.args[1].elts) == 2:
                    a, b = (self.conv(x) for x in q.args[1].elts)
                    return fun("IQ")(self.conv(q.args[0]), a, b)
            # X[[a, b]].corr().iloc[0, 1]
            if isinstance(e.value, ast.Attribute) and e.value.attr == "iloc" and isinstance(e.value.value, ast.Call) and isinstance(e.value.value.func, ast.Attribute) \
                    and e.value.value.func.attr == "corr" and unparse(e.slice) in ("(0, 1)", "(1, 0)"):
                inner = e.value.value.func.value
                if isinstance(inner, ast.Subscript) and isinstance(inner.slice, ast.List) and len(inner.slice.elts) == 2:
                    df = self.conv(inner.value)
                    cols = sorted(x.value for x in inner.slice.elts)
                    return fun("Corr")(sym(f"{df.name}.{cols[0]}"), sym(f"{df.name}.{cols[1]}"))
            base = self.conv(e.value)
            if isinstance(base, sp.Symbol) and isinstance(e.slice, ast.Constant) and isinstance(e.slice.value, str):
                return sym(f"{base.name}.{e.slice.value}")
            if isinstance(base, (list, tuple)) and isinstance(e.slice, ast.Constant) and isinstance(e.slice.value, int):
                return base[e.slice.value]
            raise Unsupported(unparse(e))
        if isinstance(e, ast.Call):
            return self.call(e)
        if isinstance(e, ast.IfExp):
            c = self.cond(e.test)
            if c is True:
                return self.conv(e.body)
            if c is False:
                return self.conv(e.orelse)
            raise Unsupported("undecided conditional expression " + unparse(e))
        raise Unsupported(unparse(e))

    def call(self, e: ast.Call) -> Any:
        if self.call_hook is not None:
            r = self.call_hook(e, self)
            if r is not None:
                return r
        fn = unparse(e.func)
        args = e.args
        if fn in ("np.sqrt", "math.sqrt", "sqrt"):
            return sp.sqrt(self.conv(args[0]))
        if fn in ("float", "int") and len(args) == 1:
            return self.conv(args[0])
        if fn == "len" and len(args) == 1:
            return fun("Len")(self.conv(args[0]))
        if fn in NP_FUNCS and len(args) == 1 and not e.keywords:
            return fun(NP_FUNCS[fn])(self.conv(args[0]))
        if fn in ("max", "np.maximum") and len(args) == 2:
            return sp.Max(self.conv(args[0]), self.conv(args[1]))
        if fn in ("min", "np.minimum") and len(args) == 2:
            return sp.Min(self.conv(args[0]), self.conv(args[1]))
        if fn == "np.polyval" and len(args) == 2:
            coefs = self.conv(args[0])
            x = self.conv(args[1])
            if not isinstance(coefs, list):
                raise Unsupported(unparse(e))
            out = 0
            for c in coefs:
                out = out * x + c
            return out
        if fn in ("np.square",) and len(args) == 1:
            return self.conv(args[0]) ** 2
        if fn in ("np.exp",) and len(args) == 1:
            return sp.exp(self.conv(args[0]))
        if isinstance(e.func, ast.Attribute):
            a = e.func.attr
            recv = e.func.value
            if a in REDUCTIONS and not args and not e.keywords:
                return fun(REDUCTIONS[a])(self.conv(recv))
            if a == "var" and not args and [(k.arg, unparse(k.value)) for k in e.keywords] == [("ddof", "0")]:
                return fun("Var0")(self.conv(recv))
            if a in ("var", "std") and not args and all(k.arg == "ddof" and isinstance(k.value, ast.Constant) and isinstance(k.value.value, int) for k in e.keywords):
                # another divisor (pandas' default is ddof=1): a different, known reduction - it compares unequal to the reference
                dd = e.keywords[0].value.value if e.keywords else 1
                return fun(f"{'Var' if a == 'var' else 'Std'}{dd}")(self.conv(recv))
            if a == "autocorr" and [(k.arg, unparse(k.value)) for k in e.keywords] == [("lag", "1")] and not args:
                return fun("Autocorr1")(self.conv(recv))
            if a == "unique" and not args:
                return fun("Unique")(self.conv(recv))
        if isinstance(e.func, ast.Name) and e.func.id in KNOWN_REF_FUNCS:
            cargs = [self.conv(a) for a in args]
            if e.func.id == "Max":
                return sp.Max(*cargs)
            if e.func.id == "Min":
                return sp.Min(*cargs)
            return fun(e.func.id)(*cargs)
        # uninterpreted repo / library helper: F_<name>(args...)
        if isinstance(e.func, ast.Name):
            conv_args = [self.conv(a) for a in args] + [self.conv(k.value) for k in sorted(e.keywords, key=lambda k: k.arg or "")]
            return fun("F_" + e.func.id)(*[a if not isinstance(a, (list, str)) and a is not None else sym(repr(a)) for a in conv_args])
        raise Unsupported(unparse(e))

    # ------------------------------------------------------------------ conditions (concrete only)
    def cond(self, t: ast.AST) -> Optional[bool]:
        try:
            if isinstance(t, ast.Compare) and len(t.ops) == 1:
                l, r = self.conv(t.left), self.conv(t.comparators[0])
                op = t.ops[0]
                if isinstance(l, str) or isinstance(r, str) or isinstance(r, list):
                    if isinstance(l, sp.Basic) and not isinstance(l, sp.Symbol):
                        return None
                    if isinstance(l, sp.Symbol) or isinstance(r, sp.Symbol):
                        return None
                    if isinstance(op, ast.Eq):
                        return l == r
                    if isinstance(op, ast.NotEq):
                        return l != r
                    if isinstance(op, ast.In):
                        return l in r
                    if isinstance(op, ast.NotIn):
                        return l not in r
            if isinstance(t, ast.UnaryOp) and isinstance(t.op, ast.Not):
                c = self.cond(t.operand)
                return None if c is None else (not c)
        except Unsupported:
            return None
        return None

    # ------------------------------------------------------------------ bodies
    def run_body(self, body: List[ast.stmt]) -> Any:
        """Symbolically execute a straight-line body with the clamp / finite-fallback / None-propagation idioms
        and concretely decided branches.  Returns the value of the first reachable `return`."""
        for st in body:
            if isinstance(st, ast.Expr) and isinstance(st.value, ast.Constant):
                continue
            if isinstance(st, ast.Assign) and len(st.targets) == 1 and isinstance(st.targets[0], ast.Name):
                self.env[st.targets[0].id] = self.conv(st.value)
                continue
            if isinstance(st, ast.Assign) and len(st.targets) == 1 and isinstance(st.targets[0], (ast.Tuple, ast.List)):
                v = self.conv(st.value)
                if isinstance(v, list) and len(v) == len(st.targets[0].elts):
                    for t, x in zip(st.targets[0].elts, v):
                        if isinstance(t, ast.Name):
                            self.env[t.id] = x
                    continue
                raise Unsupported(unparse(st)[:60])
            if isinstance(st, ast.AugAssign) and isinstance(st.target, ast.Name):
                cur = self.env.get(st.target.id, sym(st.target.id))
                v = self.conv(st.value)
                self.env[st.target.id] = {ast.Add: cur + v, ast.Sub: cur - v, ast.Mult: cur * v, ast.Div: cur / v}.get(type(st.op))
                continue
            if isinstance(st, ast.Return):
                return self.conv(st.value) if st.value is not None else None
            if isinstance(st, ast.If):
                r = self._if(st)
                if r is not _CONTINUE:
                    return r
                continue
            if isinstance(st, ast.Raise):
                raise Unsupported("raise on the evaluated path")
            if isinstance(st, ast.For) and not st.orelse:
                # a loop over a literal table: unrolled; the first iteration that returns ends the function
                items = self.conv(st.iter)
                if not isinstance(items, list):
                    raise Unsupported("loop over something that is not a literal table: " + unparse(st.iter)[:60])
                done = False
                for it_ in items:
                    if isinstance(st.target, ast.Name):
                        self.env[st.target.id] = it_
                    elif isinstance(st.target, (ast.Tuple, ast.List)) and isinstance(it_, list) and len(it_) == len(st.target.elts) and all(isinstance(t_, ast.Name) for t_ in st.target.elts):
                        for t_, x_ in zip(st.target.elts, it_):
                            self.env[t_.id] = x_
                    else:
                        raise Unsupported("loop target form: " + unparse(st.target)[:40])
                    if any(isinstance(x, (ast.Break, ast.Continue)) for b in st.body for x in ast.walk(b)):
                        raise Unsupported("break / continue in an unrolled loop")
                    r = self._loop_body(st.body)
                    if r is not _CONTINUE:
                        return r
                continue
            raise Unsupported(unparse(st)[:60])
        return None

    def _loop_body(self, body: List[ast.stmt]):
        """One unrolled iteration: `_CONTINUE` when it falls through, else the returned value."""
        marker = object()
        has_ret = any(isinstance(x, ast.Return) for b in body for x in ast.walk(b))
        if not has_ret:
            self.run_body(body)
            return _CONTINUE
        # run statement by statement so a fall-through (no return reached) is told apart from `return None`
        for st in body:
            if isinstance(st, ast.If):
                r = self._if(st)
                if r is not _CONTINUE:
                    return r
                continue
            if isinstance(st, ast.Return):
                return self.conv(st.value) if st.value is not None else None
            r = self.run_body([st])
        return _CONTINUE

    def _if(self, st: ast.If):
        t = st.test
        # None-propagation: if X is None: return None
        if isinstance(t, ast.Compare) and len(t.ops) == 1 and isinstance(t.ops[0], ast.Is) and unparse(t.comparators[0]) == "None" \
                and len(st.body) == 1 and isinstance(st.body[0], ast.Return) and (st.body[0].value is None or unparse(st.body[0].value) == "None") and not st.orelse:
            return _CONTINUE
        # clamp from below: if X < c: X = c
        if isinstance(t, ast.Compare) and len(t.ops) == 1 and isinstance(t.left, ast.Name) and len(st.body) == 1 and not st.orelse \
                and isinstance(st.body[0], ast.Assign) and isinstance(st.body[0].targets[0], ast.Name) and st.body[0].targets[0].id == t.left.id:
            c = self.conv(t.comparators[0])
            v = self.conv(st.body[0].value)
            cur = self.env.get(t.left.id, sym(t.left.id))
            if isinstance(t.ops[0], ast.Lt) and sp.simplify(c - v) == 0:
                self.env[t.left.id] = sp.Max(cur, c)
                return _CONTINUE
            if isinstance(t.ops[0], ast.Gt) and sp.simplify(c - v) == 0:
                self.env[t.left.id] = sp.Min(cur, c)
                return _CONTINUE
            raise Unsupported("conditional rebinding that is not a clamp: " + unparse(st)[:80])
        # finite fallback: if not np.isfinite(X): X = c
        if isinstance(t, ast.UnaryOp) and isinstance(t.op, ast.Not) and isinstance(t.operand, ast.Call) and unparse(t.operand.func) == "np.isfinite" \
                and len(st.body) == 1 and not st.orelse and isinstance(st.body[0], ast.Assign) and isinstance(st.body[0].targets[0], ast.Name) \
                and unparse(t.operand.args[0]) == st.body[0].targets[0].id:
            nm = st.body[0].targets[0].id
            self.env[nm] = fun("FiniteOr")(self.env.get(nm, sym(nm)), self.conv(st.body[0].value))
            return _CONTINUE
        c = self.cond(t)
        if c is None:
            raise Unsupported("branch condition not decidable from the bound constants: " + unparse(t)[:80])
        saved = None
        r = self.run_body(st.body if c else st.orelse)
        # a taken branch that returned ends the function; otherwise continue
        branch = st.body if c else st.orelse
        if any(isinstance(x, ast.Return) for b in branch for x in ast.walk(b)):
            return r
        return _CONTINUE


_CONTINUE = object()


def equal(a: Any, b: Any) -> bool:
    """Equality modulo field axioms; uninterpreted functions compare argument-wise."""
    if a is None or b is None:
        return a is None and b is None
    if isinstance(a, (list, tuple)) and isinstance(b, (list, tuple)):
        return len(a) == len(b) and all(equal(x, y) for x, y in zip(a, b))
    if isinstance(a, str) or isinstance(b, str):
        return a == b
    try:
        if a == b:
            return True
        d = sp.simplify(a - b)
        if d == 0:
            return True
        return sp.simplify(sp.expand(sp.powsimp(sp.powdenest(a - b, force=True), force=True))) == 0
    except Exception:
        return False


def parse_ref(text: str, conv: Optional[Converter] = None) -> Any:
    c = conv or Converter()
    return c.conv(ast.parse(text, mode="eval").body)
