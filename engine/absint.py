"""Abstract interpretation of repository functions over caller-supplied abstract values.

`ModuleEnv` gives the checker's interpreter (engine/pyinterp) the *module scope* of a repository module without importing it:
module-level functions become interpreted `Function`s, literal constants their values, imported names are looked up in a
table of stand-ins supplied by the rule (`np`, `pd`, ...), names of package classes become `ClassRef`s (good for isinstance
tests against abstract objects and for `raise`), and names imported from another package module are resolved there.
Anything else is `Unsupported` — the analysis stops (ANALYSIS-ERROR) instead of guessing.

`Term` is a tiny term algebra used to recognise what a small numeric function computes by *applying it to a symbol*
(e.g. lambda x: np.sqrt(np.sum(np.square(x)))  ->  sqrt(sum(sq(x)))), independent of how it is spelled or where it is defined."""
from __future__ import annotations

import ast
from typing import Any, Dict, List, Optional

from .index import Repo, Module
from .pyinterp import MODULES, Env, Function, Interp, Stub, Unsupported, _MISSING


class ClassRef(Stub):
    """A class of the analysed package (or an exception class) referred to by name."""

    def __init__(self, name: str, dotted: str = ""):
        self.name = name
        self.dotted = dotted or name
        self.__name__ = name

    def __repr__(self):
        return f"<class {self.dotted}>"

    def __eq__(self, o):
        return isinstance(o, ClassRef) and o.name == self.name

    def __hash__(self):
        return hash(("ClassRef", self.name))

    def _abs_call(self, *a, **k):
        # an instance of a class the analysis does not model: nothing is known about it but where it came from
        return Opaque(f"{self.name}()")


class EnumMember(Stub):
    """A member of an Enum class of the analysed package (str-mixin enums compare equal to their value)."""

    def __init__(self, cls: str, name: str, value: Any, str_mixin: bool = True):
        self.cls, self.name, self.value, self._str = cls, name, value, str_mixin

    def __eq__(self, o):
        if isinstance(o, EnumMember):
            return (o.cls, o.name) == (self.cls, self.name)
        return self._str and o == self.value

    def __ne__(self, o):
        return not self.__eq__(o)

    def _abs_is(self, o):
        return isinstance(o, EnumMember) and (o.cls, o.name) == (self.cls, self.name)   # members are singletons

    def __hash__(self):
        return hash(("EnumMember", self.cls, self.name))

    def __repr__(self):
        return f"{self.cls}.{self.name}"

    def lower(self):
        return self.value.lower() if isinstance(self.value, str) else self

    def __getitem__(self, k):
        if self._str and isinstance(self.value, str):   # a str-mixin member *is* its value for slicing / indexing
            return self.value[k]
        raise Unsupported(f"subscript of enum member {self!r}")

    def startswith(self, *a):
        if self._str and isinstance(self.value, str):
            return self.value.startswith(*a)
        raise Unsupported(f"startswith on enum member {self!r}")

    def __str__(self):
        return f"{self.cls}.{self.name}"


class EnumClass(Stub):
    def __init__(self, name: str, members: Dict[str, Any], str_mixin: bool):
        self.__name__ = name
        self._members = {n: EnumMember(name, n, v, str_mixin) for n, v in members.items()}

    def __getattr__(self, name):
        if name.startswith("_"):
            raise AttributeError(name)
        ms = self.__dict__.get("_members", {})
        if name in ms:
            return ms[name]
        raise AttributeError(name)

    def __iter__(self):
        return iter(self._members.values())

    def _abs_call(self, v):
        for m in self._members.values():
            if m is v or m.value == v:
                return m
        from .pyinterp import InterpRaised
        raise InterpRaised("ValueError", f"{v!r} is not a valid {self.__name__}")

    def __getitem__(self, name):
        return self._members[name]


def enum_class(ci) -> Optional["EnumClass"]:
    """EnumClass for a ClassInfo whose bases name Enum and whose members are literals; None otherwise."""
    bases = [ast.unparse(b).split(".")[-1] for b in ci.node.bases]
    if not any(b in ("Enum", "IntEnum", "StrEnum") for b in bases):
        return None
    members = {}
    for n, (ann, val, st) in ci.attrs.items():
        if val is None or n.startswith("_"):
            continue
        try:
            members[n] = ast.literal_eval(val)
        except (ValueError, TypeError, SyntaxError):
            return None
    return EnumClass(ci.name, members, "str" in bases or "StrEnum" in bases)


class AbsObj(Stub):
    """An abstract instance: `classes` are the class names it is an instance of; attributes are set by the rule."""
    _settable = True

    def __init__(self, classes=(), **attrs):
        self._classes = set(classes)
        for k, v in attrs.items():
            setattr(self, k, v)

    def _abs_isinstance(self, t) -> bool:
        ts = t if isinstance(t, tuple) else (t,)
        for x in ts:
            if isinstance(x, ClassRef) and x.name in self._classes:
                return True
        return False


class ModuleEnv(Env):
    def __init__(self, repo: Repo, module: Module, interp: Interp, stand_ins: Dict[str, Any], cache: Optional[Dict[str, "ModuleEnv"]] = None):
        super().__init__(None)
        self.repo, self.module, self.interp, self.stand_ins = repo, module, interp, stand_ins
        self.cache = cache if cache is not None else {}
        self.cache[module.name] = self

    def _env_of(self, modname: str) -> Optional["ModuleEnv"]:
        if modname in self.cache:
            return self.cache[modname]
        m = self.repo.modules.get(modname)
        if m is None:
            return None
        return ModuleEnv(self.repo, m, self.interp, self.stand_ins, self.cache)

    def lookup(self, k: str):
        m = self.module
        if k in self.stand_ins:
            return self.stand_ins[k]
        if k in m.functions:
            return Function(m.functions[k].node, self, self.interp)
        if k in m.classes:
            from .pyinterp import record_class
            rc = record_class(m.classes[k].node)
            if rc is not None:
                return rc
            ec = enum_class(m.classes[k])
            if ec is not None:
                return ec
            return ClassRef(k, f"{m.name}.{k}")
        if k in m.constants:
            try:
                return ast.literal_eval(m.constants[k])
            except (ValueError, TypeError, SyntaxError):
                # a constant computed from other module-level names: evaluate in module scope
                return self.interp.ev(m.constants[k], self)
        if k in m.imports:
            dotted = m.imports[k]
            if dotted in self.stand_ins:
                return self.stand_ins[dotted]
            head = dotted.split(".")[0]
            if head in self.stand_ins and "." not in dotted:
                return self.stand_ins[head]
            if head in MODULES:
                v_ = MODULES[head]
                for part in dotted.split(".")[1:]:
                    if not isinstance(v_, dict) or part not in v_:
                        raise Unsupported(f"import `{k}` ({dotted}) has no stand-in")
                    v_ = v_[part]
                return v_
            if head == "math":
                import math as _math
                from .pyinterp import StubCall
                leaf_ = dotted.split(".", 1)[1] if "." in dotted else None
                if leaf_ and hasattr(_math, leaf_):
                    v_ = getattr(_math, leaf_)
                    return StubCall(v_) if callable(v_) else v_
            # name imported from another module of the package
            modname, _, leaf = dotted.rpartition(".")
            other = self._env_of(modname)
            if other is not None and other is not self:
                v = other.lookup(leaf)
                if v is not _MISSING:
                    return v
            if dotted in self.repo.modules:  # `import pkg.mod as m`: attribute access resolves in that module's scope
                return ModuleObj(self._env_of(dotted), dotted)
            if leaf and (leaf.endswith(("Error", "Exception", "Warning")) or leaf[:1].isupper()):
                return ClassRef(leaf, dotted)
            raise Unsupported(f"import `{k}` ({dotted}) has no stand-in")
        if k in ("ValueError", "TypeError", "RuntimeError", "KeyError", "IndexError", "Exception", "AttributeError", "NotImplementedError"):
            return ClassRef(k)
        return _MISSING


class ModuleObj(Stub):
    """A module of the analysed package bound to a name (`import a.b.c as m`): `m.x` is x in that module's (uninterpreted-import) scope."""

    def __init__(self, env: "ModuleEnv", dotted: str):
        object.__setattr__(self, "_env", env)
        object.__setattr__(self, "_dotted", dotted)

    def __getattr__(self, name):
        if name.startswith("__"):
            raise AttributeError(name)
        v = self._env.lookup(name)
        if v is _MISSING:
            raise Unsupported(f"module {self._dotted} has no modelled name `{name}`")
        return v

    def __repr__(self):
        return f"<module {self._dotted}>"


# ------------------------------------------------------------------------------------------------ term algebra
class Term(Stub):
    def __init__(self, op: str, *args):
        self.op, self.args = op, args

    def key(self) -> str:
        if not self.args:
            return self.op
        return f"{self.op}({', '.join(a.key() if isinstance(a, Term) else repr(a) for a in self.args)})"

    __repr__ = key

    def __eq__(self, o):
        return isinstance(o, Term) and o.key() == self.key()

    def __hash__(self):
        return hash(self.key())

    # arithmetic normalised to a few shapes
    def __pow__(self, k):
        if k in (2, 2.0):
            return Term("sq", self)
        if k in (0.5,):
            return Term("sqrt", self)
        return Term("pow", self, k)

    def __mul__(self, o):
        if isinstance(o, Term) and o == self:
            return Term("sq", self)
        a, b = sorted([self, o], key=lambda t: t.key() if isinstance(t, Term) else repr(t))
        return Term("mul", a, b)

    __rmul__ = __mul__

    def __add__(self, o):
        a, b = sorted([self, o], key=lambda t: t.key() if isinstance(t, Term) else repr(t))
        return Term("add", a, b)

    __radd__ = __add__

    def __sub__(self, o):
        return Term("sub", self, o)

    def __truediv__(self, o):
        return Term("div", self, o)

    def __abs__(self):
        return Term("abs", self)

    # Series / ndarray reductions
    def sum(self, *a, **k):
        if a or any(v not in (None, 0, True) for kk, v in k.items() if kk in ("axis",)) or k.get("skipna", True) is not True or k.get("min_count", 0) not in (0,):
            return Term("sum?", self, repr(sorted(k.items())))
        return Term("sum", self)

    def mean(self, *a, **k):
        return Term("mean", self) if not a and not k else Term("mean?", self)

    def abs(self):
        return Term("abs", self)

    def pow(self, k):
        return self.__pow__(k)

    def dropna(self):
        return Term("dropna", self)

    def to_numpy(self):
        return self

    @property
    def values(self):
        return self


class NumpyTerms(Stub):
    """numpy stand-in that builds Terms.  np.sum / Series.sum skip NaN for a Series argument (pandas dispatch) — the stand-in keeps
    np.sum and .sum() as the same `sum`; np.nansum likewise; np.linalg.norm is *not* the same (it propagates NaN)."""
    nan = float("nan")

    @staticmethod
    def _t(x):
        if not isinstance(x, Term):
            raise Unsupported("numpy stand-in applied to a non-symbolic value")
        return x

    @staticmethod
    def sqrt(x):
        return Term("sqrt", NumpyTerms._t(x))

    @staticmethod
    def square(x):
        return Term("sq", NumpyTerms._t(x))

    @staticmethod
    def power(x, k):
        return NumpyTerms._t(x) ** k

    @staticmethod
    def sum(x, axis=None):
        if axis not in (None, 0):
            return Term("sum?", NumpyTerms._t(x), axis)
        return Term("sum", NumpyTerms._t(x))

    nansum = sum

    @staticmethod
    def mean(x):
        return Term("mean", NumpyTerms._t(x))

    @staticmethod
    def abs(x):
        return Term("abs", NumpyTerms._t(x))

    class _Linalg(Stub):
        @staticmethod
        def norm(x, *a, **k):
            return Term("linalg.norm", NumpyTerms._t(x))

    linalg = _Linalg()


def symbolic_apply(interp: Interp, f, sym: str = "x") -> str:
    """Canonical text of what callable `f` (interpreted Function, or a name such as 'sum') computes on a symbolic series."""
    if isinstance(f, str):
        return {"sum": "sum(x)", "mean": "mean(x)", "first": "first(x)", "last": "last(x)", "max": "max(x)", "min": "min(x)", "median": "median(x)"}.get(f, f"?{f}")
    if isinstance(f, Function):
        r = f(Term(sym))
        return r.key() if isinstance(r, Term) else f"?{r!r}"
    fn = getattr(f, "f", f)
    if callable(fn):
        try:
            r = fn(Term(sym))
        except TypeError as e:
            raise Unsupported(f"aggregator {f!r} could not be applied to a symbol: {e}")
        return r.key() if isinstance(r, Term) else f"?{r!r}"
    raise Unsupported(f"aggregator {f!r} is not understood")


# ------------------------------------------------------------------------------------------------ abstract booleans / exploration
class Oracle:
    """Decides abstract booleans; `explore` re-runs a function over all decision sequences (depth-first, each tag decided once per run)."""

    def __init__(self):
        self.script = []
        self.trace = []
        self.memo = {}

    def reset(self, script):
        self.script, self.trace, self.memo = list(script), [], {}

    def choose(self, tag: str) -> bool:
        if tag in self.memo:
            return self.memo[tag]
        i = len(self.trace)
        v = self.script[i] if i < len(self.script) else False
        self.trace.append((tag, v))
        self.memo[tag] = v
        return v


class AbsBool(Stub):
    def __init__(self, tag: str, oracle: Oracle):
        self.tag, self.oracle = tag, oracle

    def __bool__(self):
        return self.oracle.choose(self.tag)


def explore(run, oracle: Oracle, max_runs: int = 256):
    """[(decisions, result)] for every feasible decision sequence of `run()` (which consults `oracle`)."""
    out = []
    todo = [[]]
    while todo:
        if len(out) >= max_runs:
            raise Unsupported("too many abstract decision sequences")
        sc = todo.pop()
        oracle.reset(sc)
        res = run()
        tr = list(oracle.trace)
        out.append((tr, res))
        for i in range(len(sc), len(tr)):
            if tr[i][1] is False:
                todo.append([t[1] for t in tr[:i]] + [True])
    return out


class OpaqueTuple(Stub):
    """A fixed-length result whose elements do not matter: it unpacks, indexes and answers any field name with an opaque value."""

    def __init__(self, n: int, what: str = "result"):
        self._n, self._what = n, what

    def __iter__(self):
        return iter([Opaque(f"{self._what}[{i}]") for i in range(self._n)])

    def __getitem__(self, i):
        return Opaque(f"{self._what}[{i}]")

    def _abs_len(self):
        return self._n

    def __getattr__(self, name):
        if name.startswith("_"):
            raise AttributeError(name)
        return Opaque(f"{self._what}.{name}")


class Opaque(Stub):
    """A value whose content does not matter to the analysis (labels, settings-derived numbers): every attribute, call, item and
    arithmetic result is again opaque.  Use only for values that cannot influence the property being decided."""

    def __init__(self, what: str = "opaque"):
        self._what = what

    def __getattr__(self, name):
        if name.startswith("__") or name in ("_abs_isinstance", "_abs_type", "_settable"):
            raise AttributeError(name)
        return Opaque(f"{self._what}.{name}")

    def _abs_call(self, *a, **k):
        return Opaque(f"{self._what}()")

    def __getitem__(self, k):
        return Opaque(f"{self._what}[]")

    def _bin(self, o):
        return Opaque(f"{self._what}~")

    __add__ = __radd__ = __sub__ = __rsub__ = __mul__ = __rmul__ = __truediv__ = __rtruediv__ = _bin

    def __repr__(self):
        return f"<{self._what}>"


class BoundRepoMethods:
    """Mixin for abstract instances: attributes not set explicitly are looked up among the methods of the repository class (through
    its MRO) and come back as interpreted bound methods."""

    def _bind_repo(self, chk, cls_info, interp, stand_ins, cache=None):
        object.__setattr__(self, "_repo_ctx", (chk, cls_info, interp, stand_ins, cache if cache is not None else {}))

    def __getattr__(self, name):
        if name.startswith("__") or name == "_repo_ctx":
            raise AttributeError(name)
        ctx = self.__dict__.get("_repo_ctx")
        if ctx is None:
            raise AttributeError(name)
        chk, cls_info, interp, stand_ins, cache = ctx
        fi = chk.res.find_method(cls_info, name)
        if fi is None:
            # a class-level literal attribute of the repository class, else an instance attribute the rule did not set: its truth
            # value is explored both ways (the analysed code may branch on it), anything else about it is not modelled
            for k in chk.res.mro(cls_info):
                if name in k.attrs and k.attrs[name][1] is not None:
                    ck = ("class-attribute", k.key, name)   # one object per class, as in Python: stores through an instance are seen by all
                    if ck in cache:
                        return cache[ck]
                    try:
                        cache[ck] = ast.literal_eval(k.attrs[name][1])
                        return cache[ck]
                    except (ValueError, TypeError, SyntaxError):
                        pass
                    # not a plain literal ({"RMSE": np.nan}): evaluated once in the class's module scope with the rule's stand-ins
                    try:
                        env_ = cache.get(k.module.name) or ModuleEnv(chk.repo, k.module, interp, stand_ins, cache)
                        v_ = interp.ev(k.attrs[name][1], env_)
                    except Unsupported:
                        break
                    if isinstance(v_, (dict, list, set, tuple, str, int, float, bool, type(None))):
                        cache[ck] = v_
                        return v_
                    break
            orc = self.__dict__.get("_oracle")
            if orc is not None:
                return AbsBool(f"self.{name}", orc)
            raise AttributeError(name)
        env = cache.get(fi.module.name) or ModuleEnv(chk.repo, fi.module, interp, stand_ins, cache)
        fn = Function(fi.node, env, interp)
        me = self
        decos = fi.decorators
        if "staticmethod" in decos:
            return _Callable(lambda *a, **k: fn(*a, **k))
        if "property" in decos:
            return fn(me)
        return _Callable(lambda *a, **k: fn(me, *a, **k))


class _Callable(Stub):
    def __init__(self, f):
        self.f = f

    def _abs_call(self, *a, **k):
        return self.f(*a, **k)


# ------------------------------------------------------------------------------------------------ generic recording values
def canon(x) -> str:
    """Canonical text of a value that may contain Sym terms."""
    if isinstance(x, Sym):
        return x.key()
    if isinstance(x, (list, tuple)):
        o, c = ("[", "]") if isinstance(x, list) else ("(", ")")
        return o + ", ".join(canon(e) for e in x) + c
    if isinstance(x, dict):
        return "{" + ", ".join(f"{canon(k)}: {canon(v)}" for k, v in x.items()) + "}"
    if isinstance(x, slice):
        return f"{'' if x.start is None else canon(x.start)}:{'' if x.stop is None else canon(x.stop)}" + ("" if x.step is None else f":{canon(x.step)}")
    if isinstance(x, float) and x != x:
        return "nan"
    if isinstance(x, Function):
        return f"<function at line {getattr(x.node, 'lineno', '?')}>"
    return repr(x)


class SymWorld:
    def __init__(self, oracle: Optional[Oracle] = None):
        self.oracle = oracle or Oracle()
        self.effects: List[tuple] = []
        self.lengths: Dict[str, int] = {}
        self.members: Dict[str, set] = {}


class Sym(Stub):
    """A value that records what is done to it: every attribute, call, item, arithmetic or comparison yields a new term.  Two pieces
    of code that compute the same dataflow produce the same term whatever their locals, helper functions or statement order.
    Column stores into a frame-like term are remembered, so `f['c'] = x; f.c` reads x.  Truth values are decided by the world's
    oracle (explored both ways)."""

    def __init__(self, w: SymWorld, op: str, *args, classes=()):
        object.__setattr__(self, "_w", w)
        object.__setattr__(self, "_op", op)
        object.__setattr__(self, "_args", args)
        object.__setattr__(self, "_classes", set(classes))
        object.__setattr__(self, "_cols", {})

    # ---- description
    def key(self) -> str:
        op, a = self._op, self._args
        if op == "root":
            base = a[0]
        elif op == "attr":
            base = f"{canon(a[0])}.{a[1]}"
        elif op == "call":
            kw = ", ".join(f"{k}={canon(v)}" for k, v in a[2])
            pos = ", ".join(canon(x) for x in a[1])
            base = f"{canon(a[0])}({', '.join(p for p in (pos, kw) if p)})"
        elif op == "item":
            base = f"{canon(a[0])}[{canon(a[1])}]"
        elif op in ("neg", "invert", "abs"):
            base = f"{op}({canon(a[0])})"
        else:
            base = f"({canon(a[0])} {op} {canon(a[1])})"
        return base  # column stores are *state* of the frame, reported separately (a stored value may mention the frame itself)

    __repr__ = key

    # ---- structure
    def __getattr__(self, name):
        if name.startswith("_"):
            raise AttributeError(name)
        cols = object.__getattribute__(self, "_cols")
        if name in cols:
            return cols[name]
        if name == "pipe":
            # pandas: obj.pipe(f, *a, **k) is f(obj, *a, **k)
            me = self

            class _Pipe(Stub):
                def _abs_call(self_, f, *a, **k):
                    if isinstance(f, Function):
                        return f(me, *a, **k)
                    g = getattr(f, "f", None) or getattr(f, "_abs_call", None) or f
                    return g(me, *a, **k)
            return _Pipe()
        return Sym(self._w, "attr", self, name)

    def __setattr__(self, name, v):
        self._w.effects.append(("setattr", self.key(), name, canon(v)))

    _settable = True

    def _abs_cast(self, name):
        # int(x) / float(x): recorded as a call of the builtin
        return Sym(self._w, "call", Sym(self._w, "root", name), (self,), ())

    def _abs_call(self, *a, **k):
        return Sym(self._w, "call", self, tuple(a), tuple(sorted(k.items())))

    __call__ = _abs_call  # lets reference computations be written in plain Python over Sym values

    def __getitem__(self, k):
        if isinstance(k, str) and k in self._cols:
            return self._cols[k]
        return Sym(self._w, "item", self, k)

    def __setitem__(self, k, v):
        if isinstance(k, str):
            self._cols[k] = v
        else:
            self._w.effects.append(("setitem", self.key(), canon(k), canon(v)))

    def _abs_isinstance(self, t) -> bool:
        ts = t if isinstance(t, tuple) else (t,)
        return any((isinstance(x, Sym) and x.key() in self._classes) or (isinstance(x, ClassRef) and x.name in self._classes) for x in ts)

    # ---- operators
    def _bin(self, op, o, swap=False):
        return Sym(self._w, op, o, self) if swap else Sym(self._w, op, self, o)

    def __add__(self, o): return self._bin("+", o)
    def __radd__(self, o): return self._bin("+", o, True)
    def __sub__(self, o): return self._bin("-", o)
    def __rsub__(self, o): return self._bin("-", o, True)
    def __mul__(self, o): return self._bin("*", o)
    def __rmul__(self, o): return self._bin("*", o, True)
    def __truediv__(self, o): return self._bin("/", o)
    def __rtruediv__(self, o): return self._bin("/", o, True)
    def __and__(self, o): return self._bin("&", o)
    def __or__(self, o): return self._bin("|", o)
    def __lt__(self, o): return self._bin("<", o)
    def __le__(self, o): return self._bin("<=", o)
    def __gt__(self, o): return self._bin(">", o)
    def __ge__(self, o): return self._bin(">=", o)
    def __eq__(self, o): return self._bin("==", o)
    def __ne__(self, o): return self._bin("!=", o)
    def __neg__(self): return Sym(self._w, "neg", self)
    def __invert__(self): return Sym(self._w, "invert", self)
    def __abs__(self): return Sym(self._w, "abs", self)
    __hash__ = None

    def __bool__(self):
        return self._w.oracle.choose(self.key())

    def __iter__(self):
        raise Unsupported(f"iteration over the symbolic value {self.key()[:60]}")

    def __contains__(self, x):
        members = getattr(self._w, "members", {}).get(self.key())
        if members is not None:
            return x in members  # membership fixed by the scenario (e.g. which columns the frame has)
        return self._w.oracle.choose(f"{canon(x)} in {self.key()}")

    def _abs_len(self):
        """len(x): a concrete length when the world fixes one for this term, else a symbolic number (its comparisons are explored)."""
        n = self._w.lengths.get(self.key()) if hasattr(self._w, "lengths") else None
        if n is not None:
            return n
        return Sym(self._w, "call", sym_root(self._w, "len"), (self,), ())


def sym_root(w: SymWorld, name: str, classes=()) -> Sym:
    return Sym(w, "root", name, classes=classes)


def sym_walk(x):
    """All Sym nodes inside a value."""
    if isinstance(x, Sym):
        yield x
        for a in x._args:
            yield from sym_walk(a)
        for v in x._cols.values():
            yield from sym_walk(v)
    elif isinstance(x, (list, tuple)):
        for e in x:
            yield from sym_walk(e)
    elif isinstance(x, dict):
        for k, v in x.items():
            yield from sym_walk(k)
            yield from sym_walk(v)
