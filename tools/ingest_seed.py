#!/usr/bin/env python3
"""Confirm and file a seeded change produced by a sub-agent.

usage: python3-vt tools/ingest_seed.py <seed-id> <property> <dir with patch.diff demo.py notes.md> [--skip-suite]

Steps (all in a fresh scratch worktree of /repo's HEAD under /tmp, removed afterwards):
  1. patch applies; the package still imports;
  2. demo.py passes without the patch and fails with it;
  3. the pinned baseline (208 tests) still passes with the patch;
  4. every registered check is run against the patched tree (tools/eval_seed.py);
then /verif/seeded/<seed-id>/{patch.diff, demo.py, notes.md, meta.json} are written.
"""
import json
import os
import shutil
import subprocess
import sys
import tempfile
import xml.etree.ElementTree as ET

HERE = os.path.dirname(os.path.dirname(os.path.abspath(__file__)))
sys.path.insert(0, HERE)
from tools.eval_seed import ALL, evaluate  # noqa: E402


def sh(cmd, cwd=None, env=None, timeout=3600):
    return subprocess.run(cmd, shell=True, cwd=cwd, env=env, capture_output=True, text=True, timeout=timeout)


def main():
    sid, prop, src = sys.argv[1:4]
    skip_suite = "--skip-suite" in sys.argv
    dst = os.path.join(HERE, "seeded", sid)
    os.makedirs(dst, exist_ok=True)
    for fn in ("patch.diff", "demo.py", "notes.md"):
        if os.path.abspath(src) != os.path.abspath(dst):
            shutil.copy(os.path.join(src, fn), os.path.join(dst, fn))
    patch = os.path.join(dst, "patch.diff")
    wt = tempfile.mkdtemp(prefix="vt-seedwt-")
    os.rmdir(wt)
    meta = {"seed_id": sid, "breaks_property": prop, "ran": []}
    try:
        r = sh(f"git -C /repo worktree add --detach {wt} HEAD -q")
        assert r.returncode == 0, r.stderr
        env = dict(os.environ, PYTHONPATH=wt)
        env.pop("OPENDSM_EEMETER_VERIF", None)
        d0 = sh(f"/venv/bin/python {dst}/demo.py", cwd=wt, env=env, timeout=1800)
        meta["demo_without_patch_exit"] = d0.returncode
        meta["ran"].append("demo.py on the unchanged tree")
        a = sh(f"git apply --whitespace=nowarn {patch}", cwd=wt)
        meta["patch_applies"] = a.returncode == 0
        if a.returncode != 0:
            meta["error"] = a.stderr[:500]
        else:
            imp = sh("/venv/bin/python -c 'import opendsm, opendsm.eemeter'", cwd=wt, env=env)
            meta["imports_with_patch"] = imp.returncode == 0
            d1 = sh(f"/venv/bin/python {dst}/demo.py", cwd=wt, env=env, timeout=1800)
            meta["demo_with_patch_exit"] = d1.returncode
            meta["demo_with_patch_tail"] = (d1.stdout + d1.stderr)[-600:]
            meta["ran"].append("demo.py on the patched tree")
            if not skip_suite:
                b = json.load(open("/root/.vp/BASELINE.json"))
                out = tempfile.mktemp(suffix=".xml")
                cmd = b["cmd"].replace("cd /repo", f"cd {wt}").replace("<file>", out)
                sh(cmd, env=env, timeout=3600)
                passed = set()
                for tc in ET.parse(out).getroot().iter("testcase"):
                    if not any(ch.tag in ("failure", "error", "skipped") for ch in tc):
                        passed.add(f"{tc.get('classname')}::{tc.get('name')}")
                os.unlink(out)
                missing = sorted(set(b["stable_pass"]) - passed)
                meta["baseline_missing_with_patch"] = missing
                meta["ran"].append(f"pinned baseline with the patch: {len(passed)} passed, {len(missing)} of the 208 missing")
        ev = evaluate(patch, ALL)
        meta["checks_fired"] = ev.get("fired", {})
        meta["checks_analysis_errors"] = ev.get("analysis_errors", {})
        meta["detected_by_own_property_check"] = prop in ev.get("fired", {})
        meta["ran"].append("all registered checks (quick) against a scratch copy with the patch applied")
        meta["confirmed"] = bool(meta.get("patch_applies") and meta.get("imports_with_patch") and meta.get("demo_without_patch_exit") == 0
                                 and meta.get("demo_with_patch_exit") not in (0, None) and (skip_suite or not meta.get("baseline_missing_with_patch")))
    finally:
        sh(f"git -C /repo worktree remove --force {wt}")
        shutil.rmtree(wt, ignore_errors=True)
    try:
        notes = open(os.path.join(dst, "notes.md")).read()
        meta["needs_to_manifest"] = notes[:1500]
    except OSError:
        pass
    json.dump(meta, open(os.path.join(dst, "meta.json"), "w"), indent=1)
    print(json.dumps({k: meta[k] for k in meta if k not in ("needs_to_manifest", "demo_with_patch_tail")}, indent=1)[:3000])


if __name__ == "__main__":
    main()
