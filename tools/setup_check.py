#!/usr/bin/env python3
"""MANIFEST.setup_cmd: nothing to build (pure-Python analysers); verify the tooling the checks import is present."""
import sys
try:
    import networkx, sympy  # noqa
except ImportError as e:
    print("setup: missing module in python3-vt:", e)
    sys.exit(1)
import os
os.makedirs(os.path.join(os.path.dirname(os.path.dirname(os.path.abspath(__file__))), "evidence"), exist_ok=True)
print("setup ok: python", sys.version.split()[0], "networkx", networkx.__version__, "sympy", sympy.__version__)
