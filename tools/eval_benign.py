#!/usr/bin/env python3
"""Run every registered check against behaviour-preserving refactorings (diffs) and list the false alarms.
usage: python3-vt tools/eval_benign.py <diff> [...]   ->  one line per diff: OK or the (property, rule, key) that fired / analysis errors"""
import json
import os
import sys

HERE = os.path.dirname(os.path.dirname(os.path.abspath(__file__)))
sys.path.insert(0, HERE)
from tools.eval_seed import ALL, evaluate  # noqa: E402

bad = 0
for patch in sys.argv[1:]:
    ev = evaluate(patch, ALL)
    if "error" in ev:
        print(f"{patch}: PATCH-ERROR {ev['error'][:100]}")
        continue
    if not ev["fired"] and not ev["analysis_errors"]:
        print(f"{patch}: OK")
        continue
    bad += 1
    print(f"{patch}: FALSE-ALARM")
    for prop, vs in ev["fired"].items():
        for v in vs:
            print(f"    {prop} {v[:230]}")
    for prop, es in ev["analysis_errors"].items():
        for e in es:
            print(f"    {prop} {e[:230]}")
print(f"{bad} of {len(sys.argv) - 1} refactorings raise an alarm")
