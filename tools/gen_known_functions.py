#!/usr/bin/env python3
"""Generate spec/known_functions.json: the names (module:qualname) of every module-level function and class method the package
has today.  engine/inline.py treats any *other* same-module function as an extracted helper and inlines it into its callers
before the rules look at the code.  The table holds names only; regenerate after the rules have been taught a new function:
    python3-vt tools/gen_known_functions.py [repo root]"""
import ast
import json
import os
import sys

HERE = os.path.dirname(os.path.dirname(os.path.abspath(__file__)))
root = sys.argv[1] if len(sys.argv) > 1 else "/repo"
out = []
consts = []
sigs = {}
for dp, dn, fns in os.walk(os.path.join(root, "opendsm")):
    dn[:] = sorted(d for d in dn if d != "__pycache__")
    for fn in sorted(fns):
        if not fn.endswith(".py"):
            continue
        rel = os.path.relpath(os.path.join(dp, fn), root)
        parts = rel[:-3].split(os.sep)
        if parts[-1] == "__init__":
            parts = parts[:-1]
        mod = ".".join(parts)
        tree = ast.parse(open(os.path.join(dp, fn), encoding="utf-8").read())
        def sig(fn):
            a = fn.args
            called = sorted({(n.func.attr if isinstance(n.func, ast.Attribute) else getattr(n.func, "id", "?")) for n in ast.walk(fn) if isinstance(n, ast.Call)})
            return {"params": [x.arg for x in a.posonlyargs + a.args + a.kwonlyargs], "calls": called[:40]}

        def nested(fn, qual):
            for sub in ast.walk(fn):
                if sub is not fn and isinstance(sub, (ast.FunctionDef, ast.AsyncFunctionDef)):
                    out.append(f"{mod}:{qual}.<locals>.{sub.name}")
        for st in ast.walk(tree):
            if isinstance(st, ast.ClassDef):
                for m in st.body:
                    if isinstance(m, (ast.FunctionDef, ast.AsyncFunctionDef)):
                        out.append(f"{mod}:{st.name}.{m.name}")
                        sigs[f"{mod}:{st.name}.{m.name}"] = sig(m)
                        nested(m, f"{st.name}.{m.name}")
        for st in tree.body:
            if isinstance(st, (ast.FunctionDef, ast.AsyncFunctionDef)):
                nested(st, st.name)
                sigs[f"{mod}:{st.name}"] = sig(st)
        for st in ast.walk(tree):
            if isinstance(st, ast.Name) and isinstance(st.ctx, ast.Store):
                pass
        for st in tree.body:
            if isinstance(st, ast.Assign):
                for t in st.targets:
                    for n in ast.walk(t):
                        if isinstance(n, ast.Name):
                            consts.append(f"{mod}:{n.id}")
            elif isinstance(st, ast.AnnAssign) and isinstance(st.target, ast.Name):
                consts.append(f"{mod}:{st.target.id}")
            if isinstance(st, (ast.FunctionDef, ast.AsyncFunctionDef)):
                out.append(f"{mod}:{st.name}")
            elif isinstance(st, (ast.If, ast.Try)):
                for sub in ast.walk(st):
                    if isinstance(sub, (ast.FunctionDef, ast.AsyncFunctionDef)):
                        out.append(f"{mod}:{sub.name}")
out = sorted(set(out))
consts = sorted(set(consts))
json.dump({"generated_by": "tools/gen_known_functions.py", "functions": out, "constants": consts, "signatures": sigs}, open(os.path.join(HERE, "spec", "known_functions.json"), "w"), indent=0)
print(len(out), "functions", len(consts), "module constants")
