#!/usr/bin/env python3
"""Re-run every registered check against every seeded change under /verif/seeded (scratch copy of /repo's current tree with the
patch applied, removed afterwards) and refresh `checks_fired` / `detected_by_own_property_check` in each meta.json.
The demonstration and the baseline run recorded by tools/ingest_seed.py are left as they are.

usage: python3-vt tools/refresh_seed_meta.py [seed-id ...]"""
import json
import os
import sys

HERE = os.path.dirname(os.path.dirname(os.path.abspath(__file__)))
sys.path.insert(0, HERE)
from tools.eval_seed import ALL, evaluate  # noqa: E402


def main():
    ids = sys.argv[1:] or sorted(os.listdir(os.path.join(HERE, "seeded")))
    rows = []
    for sid in ids:
        d = os.path.join(HERE, "seeded", sid)
        mp = os.path.join(d, "meta.json")
        if not os.path.exists(mp):
            continue
        meta = json.load(open(mp))
        ev = evaluate(os.path.join(d, "patch.diff"), ALL)
        if "error" in ev:
            meta["checks_error"] = ev["error"]
            print(sid, "ERROR", ev["error"])
        else:
            meta.pop("checks_error", None)
            meta["checks_fired"] = ev["fired"]
            meta["checks_analysis_errors"] = ev["analysis_errors"]
            meta["detected_by_own_property_check"] = meta["breaks_property"] in ev["fired"]
        json.dump(meta, open(mp, "w"), indent=1)
        rows.append((sid, meta["breaks_property"], meta.get("confirmed"), meta.get("detected_by_own_property_check"), sorted(meta.get("checks_fired", {})), sorted(meta.get("checks_analysis_errors", {}))))
    for r in rows:
        print("%-8s breaks=%s confirmed=%s own=%s fired=%s analysis_errors=%s" % r)


if __name__ == "__main__":
    main()
