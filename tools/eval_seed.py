#!/usr/bin/env python3
"""Run every registered check against a seeded change (a patch applied to a scratch copy of /repo's current tree, made
outside /repo and /verif and removed afterwards) and report which checks raise *new* violations w.r.t. the unchanged tree.

usage: python3-vt tools/eval_seed.py seeded/<id>/patch.diff [more patches ...] [--props C01,C02]
"""
import concurrent.futures as cf
import json
import os
import shutil
import subprocess
import sys

HERE = os.path.dirname(os.path.dirname(os.path.abspath(__file__)))
sys.path.insert(0, HERE)
from selftest.runner import _parse_viols, _vkey, baseline, make_scratch  # noqa: E402

ALL = [c["property_id"] for c in json.load(open(os.path.join(HERE, "MANIFEST.json")))["checks"]]


def run_one(args):
    prop, root = args
    evd = os.path.join(root, "_evidence_" + prop)
    p = subprocess.run([sys.executable, os.path.join(HERE, "check.py"), prop, "--repo", root, "--evidence-dir", evd, "--tier", "quick"], capture_output=True, text=True, timeout=900)
    base = baseline(prop)
    new = [v for v in _parse_viols(p.stdout) if _vkey(v) not in base["viols"]]
    errs = [l for l in p.stdout.splitlines() if l.startswith("ANALYSIS-ERROR")]
    return prop, p.returncode, new, errs


def evaluate(patch, props):
    root = make_scratch("/repo")
    try:
        r = subprocess.run(["git", "apply", "--whitespace=nowarn", os.path.abspath(patch)], cwd=root, capture_output=True, text=True)
        if r.returncode != 0:
            return {"patch": patch, "error": "patch does not apply to the current tree: " + r.stderr.strip()[:300]}
        with cf.ThreadPoolExecutor(max_workers=16) as ex:
            res = list(ex.map(run_one, [(p, root) for p in props]))
        out = {"patch": patch, "fired": {}, "analysis_errors": {}}
        for prop, code, new, errs in res:
            if new:
                out["fired"][prop] = new[:4]
            if code == 2 or errs:
                out["analysis_errors"][prop] = errs[:3]
        return out
    finally:
        shutil.rmtree(root, ignore_errors=True)


def main():
    args = sys.argv[1:]
    props = ALL
    if "--props" in args:
        i = args.index("--props")
        props = args[i + 1].split(",")
        args = args[:i] + args[i + 2:]
    for patch in args:
        res = evaluate(patch, props)
        print(json.dumps(res, indent=1)[:6000])


if __name__ == "__main__":
    main()
