#!/usr/bin/env python3
"""One-off: writes spec/approved_settings.json from the *pinned* tree (golden table of API-level values, DESIGN G3).
Re-run only when the approved method constants themselves are deliberately changed."""
import json, os, sys
HERE = os.path.dirname(os.path.dirname(os.path.abspath(__file__)))
sys.path.insert(0, HERE)
from engine.report import Check
from rules.c14 import census_all, CONSTRAINT_KEYS
chk = Check("C14", repo_root=sys.argv[1] if len(sys.argv) > 1 else "/repo", quiet=True, evidence_dir="/tmp/_ignore")
c = census_all(chk)
out = {}
for cls, fields in c.items():
    out[cls] = {f: {k: v for k, v in rec.items() if k in ("default", "default_factory", "developer", "exclude") + CONSTRAINT_KEYS} for f, rec in fields.items()}
json.dump(out, open(os.path.join(HERE, "spec", "approved_settings.json"), "w"), indent=1, sort_keys=True)
print({k: len(v) for k, v in out.items()}, sum(len(v) for v in out.values()))
