#!/usr/bin/env python3
"""Generate spec/dst_day_shapes.json: every distinct *shape* a local calendar day takes on an hourly (absolute 1 h spacing) grid
in any IANA zone of this machine's tz database, for every offset change 2000-2037.

A shape is the sequence of wall-clock (hour, minute) stamps falling on that local date plus two facts about the date's
boundaries: whether local 00:00:00 and 23:59:59.999999 exist and are unambiguous.  The table is an *environment fact*
(the tz database), not derived from the analysed repository; rules/dstnorm.py interprets the repository's clock-normalisation
helpers over it.  Regenerate with:  python3-vt tools/gen_dst_shapes.py   (reads the system tz database through zoneinfo)."""
import collections
import datetime as dt
import json
import os
import zoneinfo

UTC = dt.timezone.utc
HERE = os.path.dirname(os.path.dirname(os.path.abspath(__file__)))


def noon_offset(z, d):
    return dt.datetime(d.year, d.month, d.day, 12, tzinfo=z).utcoffset()


def localisable(z, d, h, mi, s, us):
    """Does wall time d h:mi:s.us exist exactly once in zone z?"""
    a = dt.datetime(d.year, d.month, d.day, h, mi, s, us, tzinfo=z, fold=0)
    b = a.replace(fold=1)
    if a.utcoffset() != b.utcoffset():
        # ambiguous (fold matters and both map back) or nonexistent (gap)
        return False
    back = a.astimezone(UTC).astimezone(z)
    return back.replace(tzinfo=None) == a.replace(tzinfo=None)


def main():
    shapes = collections.OrderedDict()
    zones = [n for n in sorted(zoneinfo.available_timezones()) if not n.startswith(("posix/", "right/")) and n not in ("localtime", "Factory")]
    for name in zones:
        z = zoneinfo.ZoneInfo(name)
        cur, end = dt.date(2000, 1, 1), dt.date(2037, 12, 31)
        po = noon_offset(z, cur - dt.timedelta(days=1))
        trans = []
        while cur <= end:
            o = noon_offset(z, cur)
            if o != po:
                trans.append((cur, o - po))
            po = o
            cur += dt.timedelta(days=1)
        sub_hour = any(delta.total_seconds() % 3600 != 0 for _d, delta in trans)
        phases = [0, 30] if sub_hour else [0]
        for t, _delta in trans:
            for D in (t - dt.timedelta(days=1), t):
                for ph in phases:
                    a = dt.datetime(D.year, D.month, D.day, 0, ph, tzinfo=z) - dt.timedelta(days=2)
                    t0 = a.astimezone(UTC)
                    stamps = []
                    for k in range(0, 110):
                        loc = (t0 + dt.timedelta(hours=k)).astimezone(z)
                        if loc.date() == D:
                            stamps.append((loc.hour, loc.minute))
                    hours = [h for h, _m in stamps]
                    if not stamps or (len(stamps) == 24 and len(set(hours)) == 24):
                        continue
                    key = (tuple(stamps), localisable(z, D, 0, 0, 0, 0), localisable(z, D, 23, 59, 59, 999999))
                    rec = shapes.setdefault(key, {"zones": set(), "examples": []})
                    rec["zones"].add(name)
                    if len(rec["examples"]) < 3 and name not in [e[0] for e in rec["examples"]]:
                        rec["examples"].append((name, D.isoformat(), ph))
    out = []
    for (stamps, start_ok, end_ok), rec in sorted(shapes.items(), key=lambda kv: (len(kv[0][0]), kv[0][0], kv[0][1], kv[0][2])):
        hours = [h for h, _m in stamps]
        out.append({
            "count": len(stamps),
            "stamps": [list(s) for s in stamps],
            "missing_hours": sorted(set(range(24)) - set(hours)),
            "repeated_hours": sorted({h for h in hours if hours.count(h) > 1}),
            "wall_clock_repeated": sorted({list(s)[0] for s in stamps if stamps.count(s) > 1}),
            "day_start_localisable": start_ok,
            "day_end_localisable": end_ok,
            "n_zones": len(rec["zones"]),
            "examples": [list(e) for e in rec["examples"]],
        })
    doc = {"generated_by": "tools/gen_dst_shapes.py", "source": "system tz database via zoneinfo", "years": "2000-2037", "zones_scanned": len(zones), "shapes": out}
    with open(os.path.join(HERE, "spec", "dst_day_shapes.json"), "w") as f:
        json.dump(doc, f, indent=1)
    print(len(out), "shapes;", collections.Counter(s["count"] for s in out))


if __name__ == "__main__":
    main()
