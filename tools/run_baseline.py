#!/usr/bin/env python3
"""Runs the pinned baseline command (guard off) and compares the passing set with BASELINE.json's stable_pass."""
import json, os, subprocess, sys, tempfile, xml.etree.ElementTree as ET
b = json.load(open("/root/.vp/BASELINE.json"))
out = tempfile.mktemp(suffix=".junit.xml", prefix="baseline-")
cmd = b["cmd"].replace("<file>", out)
env = dict(os.environ); env.pop("OPENDSM_EEMETER_VERIF", None)
p = subprocess.run(cmd, shell=True, env=env, capture_output=True, text=True)
passed = set()
for tc in ET.parse(out).getroot().iter("testcase"):
    if not any(ch.tag in ("failure", "error", "skipped") for ch in tc):
        passed.add(f"{tc.get('classname')}::{tc.get('name')}")
os.unlink(out)
want = set(b["stable_pass"])
missing = sorted(want - passed)
print(f"passed={len(passed)} stable_pass={len(want)} missing={len(missing)} newly_passing={len(passed - want)}")
for m in missing: print("  MISSING", m)
sys.exit(1 if missing else 0)
