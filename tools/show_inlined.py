#!/usr/bin/env python3
"""Debug aid: apply a diff to a scratch copy of /repo and print a function as the rules see it (after engine/inline.py).
usage: python3-vt tools/show_inlined.py <diff|-> <module> <qualname> [--log]"""
import ast, os, shutil, subprocess, sys
HERE = os.path.dirname(os.path.dirname(os.path.abspath(__file__)))
sys.path.insert(0, HERE)
from selftest.runner import make_scratch
from engine.index import Repo
patch, mod, qual = sys.argv[1:4]
root = make_scratch("/repo")
try:
    if patch != "-":
        r = subprocess.run(["git", "apply", "--whitespace=nowarn", os.path.abspath(patch)], cwd=root, capture_output=True, text=True)
        assert r.returncode == 0, r.stderr
    repo = Repo(root)
    if "--log" in sys.argv:
        print("\n".join(repo.inline_log))
    print(ast.unparse(repo.func(mod, qual).node))
finally:
    shutil.rmtree(root, ignore_errors=True)
