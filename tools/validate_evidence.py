#!/usr/bin/env python3
import json, sys, glob, jsonschema
sch = json.load(open("/root/.vp/EVIDENCE.schema.json"))
bad = 0
for p in sorted(glob.glob("/verif/evidence/C*.json")):
    try:
        jsonschema.validate(json.load(open(p)), sch)
    except Exception as e:
        bad += 1
        print("INVALID", p, str(e)[:200])
print("evidence files valid" if not bad else f"{bad} invalid")
sys.exit(1 if bad else 0)
