#!/usr/bin/env python3
"""Regenerates /verif/MANIFEST.json from the table below and validates it against the schema.
A property is listed under `checks` only if rules/<id>.py exists; everything else goes to not_applicable."""
import json
import os
import sys

HERE = os.path.dirname(os.path.dirname(os.path.abspath(__file__)))

BASELINE_OFF = ("cd /repo && env -u OPENDSM_EEMETER_VERIF /venv/bin/python -m pytest -ra -q -p no:cacheprovider --timeout=900 "
                "--continue-on-collection-errors --junitxml=/tmp/opendsm_baseline_off.junit.xml")

TRUST = ("Trusted base: CPython's ast as a faithful parse of what ships (files under /repo/opendsm); the table of pandas/NumPy/sklearn "
         "facts in engine/pdfacts.py; a statement-level CFG without implicit exception edges from calls; pydantic's own validation; "
         "this file's reading of the property into clauses (DESIGN.md section 4). Decides the named structural clauses, not runtime values.")

P = {
    "C01": dict(text="Writer/reader table agreement for every serialised key of the daily, billing, hourly and CalTRACK-hourly families, state coverage of the predict path, re-serialisability of what the reader stores, sibling evaluators, coefficient-order conventions. The hourly round trip goes through the interpreted to_json / from_json wrappers (key order of the text matters where the reader reads a mapping by position). Decides the structural necessary conditions of an exact round trip for all inputs; bit-identity of floating point is not decided.",
                tech="table agreement + value-flow (def-use) + symbolic round trip of the hourly and daily/billing state (to_dict and from_dict interpreted back to back on symbolic attributes, through the JSON data model; the reader works on its own copy of the document) + abstract interpretation of the sibling evaluators and kernel wrappers (own AST interpreter) + effect analysis over the class hierarchy (no mutable state kept on the class and written through an instance); helper-transparency pre-pass", ref="4/C01, 9.8, 9.9, 9.10"),
    "C02": dict(text="Effect (write-set) analysis of every predict path against the serialised/read attribute sets, aliasing of data-object lists into models, copy-before-mutate origin analysis of the data classes, ownership of private frames. Holds for all call histories because it is a property of the code's write set.",
                tech="effect / origin analysis over the call graph (ast): predict-path write sets, copy-before-mutate of the data classes, in-place stores of fit/predict judged against the data object (a df accessor is fresh only where it hands out a copy); effect analysis over the class hierarchy for class-level mutable state", ref="4/C02, 9.10"),
    "C03": dict(text="Inventory of nondeterminism sources (RNG, clocks, hash-order, process-global state) reachable from any fit/predict, each shown sanitised (seeded, sorted, guarded) by def-use; thread pins and private optimiser start vectors present. Decides 'no unsanitised source reaches a result'; library bit-reproducibility is not decided.",
                tech="source inventory + def-use to sinks (ast, call graph), incl. worker-count dependent constructs (parallel kernels, prange, pools, n_jobs); effect analysis over the class hierarchy for class-level mutable state", ref="4/C03, 9.10"),
    "C04": dict(text="For every model family the fit/predict CFGs are evaluated over all valuations of the guard atoms (dq, ignore, fitted, isinstance, timezone): work calls, normal returns and the dedicated raises are reachable exactly as the property's truth table says; raise-site census; no swallowing handler; poor-fit disqualification on every path; persistence of the disqualification list including snapshot ordering; the statistic the daily poor-fit gate reads is this fit's (refit scenario shared with C16). Exhaustive over the finite guard space, for all inputs.",
                tech="CFG reachability under exhaustive guard valuations (three-valued truth tables), dominance, who-may-raise census", ref="4/C04"),
    "C05": dict(text="Column-level information flow: no def-use path from the reporting period's usage column to a kernel input, a feature list or a regime choice on any predict path; row filters and pass-through are classified and allowed. A thinly covered day stays a row of the daily roll-up and every calendar day of the span is a meter row (otherwise its weather is pooled into the previous day's prediction). Gap filling of the weather columns does not depend on the usage column, explicitly or through a test.",
                tech="column-level information-flow (taint) analysis (ast, call graph) + one-row abstract interpretation of the daily usage roll-up + symbolic interpretation of interpolate() on recording values for every column order (explicit flow in the stored terms, implicit flow through the trie of explored tests) + interpretation of the daily calendar completion (date key classified)", ref="4/C05, 9.9, 9.10"),
    "C06": dict(text="Index provenance: the frame returned by predict is a reindex to / complement-concat of the data object's own index, sorted; no other row source. Clock normalisation: _get_dst_indices / correct_dst / _transform_dst interpreted from the AST over every day shape of the IANA database x position in the span (no raise, 24 slots per day, one value per timestamp, no shift). Numeric finiteness of the fitted model's output is not decided.",
                tech="abstract interpretation (own AST interpreter): row-set frames for the daily/billing assembly, aggregation descriptions for billing predict, provenance values (incl. 1-d arrays, masks, insert, rolling means) over the exhaustive IANA day-shape domain for the DST helpers; def-use for the hourly reindex", ref="4/C06, 9.6, 9.8, 9.10"),
    "C07": dict(text="Every path of the daily/billing _predict (masking on) passes an *effective* NaN store into observed for the rows of the re-appended frame whose temperature is missing or not finite (the masks are evaluated on one cell per case: NaN, +inf, -inf); stores into mask-selected temporaries are detected; predictions are produced only for rows that survived the completeness filters.",
                tech="abstract interpretation of _initialize_data/_predict over row-set frames (stores reach the returned object, explored over flag/column/emptiness scenarios; store masks carry their meaning and are evaluated per cell state) + no-effect-store lint (ast)", ref="4/C07, 9.8"),
    "C08": dict(text="Threshold/operator tables of the off-cycle and 50% rules (billing period length in calendar days: the generic period spans the autumn clock change, d days and one hour, or the spring one, d days less one hour - open finding F28), aggregation-kind typing (sum vs mean; /coverage only on sums), interval-spreading structure (billing side read off the terms the meter roll-up builds: cumulative as_freq on the cleaned bills, open final row dropped, closing NaN one day after the last covered day, for every granularity and branch). Gaps must reach the coverage rule (the series handed to the down-sampling helper still carries its missing readings). The conservation sums themselves (pandas resampling arithmetic) are not decided.",
                tech="symbolic interpretation of the daily data class's meter roll-up (what is handed to the down-sampling helper); one-row abstract interpretation of downsample_and_clean_daily_data (day of coverage c: kept, rescaled, warned); symbolic interpretation of as_freq on recording values compared with a reference term; interpretation of compute_minimum_granularity on threshold representatives; threshold tables (mask normalisation) + aggregation-kind tags (ast)", ref="4/C08, 9.8, 9.9"),
    "C09": dict(text="A mean is never rescaled by coverage, the daily frame receives daily-kind columns, the 50% blanking rules of both routes decided by outcome (a day of coverage c on the sub-daily route; a meter day with n present / m absent readings among complete days on the hourly route, incl. the 23- and 25-hour days and a companion day without readings: blank iff at most half present, warned iff a day was blanked) and count definitions, sibling cross-check of the daily and billing implementations. merge_asof grouping and timezone arithmetic are not decided. The readings handed to the aggregation are the caller's temperature column, value-unchanged (R09.5); every calendar day of the span is a meter row, matched on year, month and day (R09.6).",
                tech="abstract interpretation on recording frames: compute_temperature_features (aggregator and rename tables applied, grouping described) and _set_data (temperature column reaches the aggregation unaltered); one-row abstract interpretation of both routes of _compute_temperature_features in both siblings (generic row + typical row + companion row; call records of as_freq / compute_temperature_features); kind tags per path (from the symbolic interpretation of as_freq) + sibling cross-check (ast)", ref="4/C09, 9.8, 9.9"),
    "C10": dict(text="Per-family criteria call lists are exactly the published set, each predicate is (quantity, operator, threshold) as published, every warning construction reaches the right sink (disqualification vs warnings), plumbing order of the two lists. day_counts is decided on a symbolic index (each period runs to the next timestamp); the remaining index arithmetic of the counts is not decided. The daily frame the criteria count days on has one row per calendar day: days already present are matched on the same year-month-day key on both sides when the missing days are put back (R10.5). The hourly classes hand the criteria the frame with filled-in values blanked and coverage flags of the blanked temperature.",
                tech="exhaustiveness + sink classification (ast, call graph); scalar criteria interpreted on one representative per side of every threshold; valid-day totals, monthly-coverage criteria and the frame handed to the hourly criteria interpreted on recording columns / a state frame (own AST interpreter)", ref="4/C10, 9.8, 9.9"),
    "C11": dict(text="The full_model kernel is abstractly evaluated under every total pre-order of its comparison operands and zero/non-zero flags: regime table, boundary continuity, sign conventions; closed forms of the branches; load decomposition uses the kernel's own vector (the stored coefficient vector is a mutable symbolic array: conversions applied before the expansion are seen). Where the smoothing fractions use up the whole gap the two shifted balance points are one value (no regime choice decided by rounding). Real-analysis facts about the smoothed curve are not decided.",
                tech="abstract interpretation on dual numbers (representative value x sympy expression) over the exhaustive order/zero-pattern domain: kernel, wrappers, smoothing (incl. exact-tie identity); recording stand-ins for the load decomposition (own AST interpreter)", ref="4/C11, 9.8, 9.10"),
    "C12": dict(text="Bounds tables agree position-by-position with coefficient order, objective arity/ordering, declared model type <=> fields present, recorded temperature limits, scored-vs-stored pipeline order, read-back wrappers reorder like the scoring kernel. Optimiser behaviour and finiteness are not decided.",
                tech="table agreement (ast) + abstract interpretation: bounds-preparation helpers on representative bound tables (one row per side of every guard at every slope/smoothing position), kernel wrappers on dual numbers, evaluators on recording stand-ins", ref="4/C12, 9.8, 9.9"),
    "C13": dict(text="Literal split options are set partitions, routing is the conjunction of season and day membership with a consistent key grammar, the unsplit model is always kept, each allow-flag bans its own split, strict arg-min idiom, selection-criteria exhaustive. A reloaded model is constructed with the stored settings, so its routing tables are the stored ones (R13.7). The combination generator's output is not decided.",
                tech="interpretation (own AST interpreter) of the combination generator/trimmer over all flag x Gaussian x data scenarios, of _meter_segment routing, of the arg-min, and of selection_criteria on symbolic scalars for every enum member; the constructor interpreted for the split vocabulary; effect analysis over the class hierarchy (vocabulary is per model); row-set frames for the prediction loop", ref="4/C13, 9.8, 9.9, 9.10"),
    "C14": dict(text="Census of every settings field (default, developer flag, constraints) against approved values and two independent in-repo oracles; the developer-mode lock is wired on every path and recurses; configuration is frozen and keys/values are normalised for every spelling class; the published cross-field rules are enforced exactly; internal escalations enumerated. Exhaustive over all declared fields.",
                tech="field census (literal evaluation) + CFG reachability + abstract interpretation (own AST interpreter) of the recursive checker over all field kinds, of every after-validator on a boundary grid against the published cross-field rules, and of the key/value normalisers over spelling classes", ref="4/C14, 9.8, 9.10"),
    "C16": dict(text="Each computed statistic's return expression, with sibling properties inlined, is algebraically equal to the textbook formula; undefined-rather-than-number guard; poor-fit gates' truth tables; hourly baseline metrics come from predict(baseline) on non-interpolated rows.",
                tech="expression normalisation (sympy as term normaliser) + truth tables + def-use (ast); daily error metrics and their bookkeeping interpreted on sympy-valued stand-ins, including a refit scenario on a constructed model object (statistics after a second fit are those of the second fit)", ref="4/C16, 9.9, 9.10"),
    "C17": dict(text="The hourly data class copies before mutating, zero->NaN only for electricity on observed, keep-first de-duplication, every interpolation store is bounded to cells that were missing, flags derive from was-missing-and-now-present in the right order; the contiguous index runs from wall-clock 00:00 of the first to wall-clock 23:00 of the last day (abstract wall-clock value, duration arithmetic rejected); index stores keep every reading at its instant; on the persistent-gap path both a forward and a backward fill are applied.",
                tech="symbolic interpretation of interpolate()/_interpolate on recording values (every data-dependent branch, every lag threshold) + origin analysis + abstract wall-clock evaluation (ast)", ref="4/C17, 9.8"),
    "C18": dict(text="Exhaustive literal evaluation of the three weight tables (bijection, 3-cover, 1/0.5/0.5 neighbours), prediction routing month -> own centred window, hour_of_week form, complementary occupancy masks, bin-feature regime table.",
                tech="one-row abstract interpretation (stand-ins on the own AST interpreter, incl. constant NumPy tables and the UTC-instant view of an index) of the weight tables for an hour of every local month x UTC-calendar position x tz-aware/naive, of segment_time_series and SegmentedModel routing, and of the bin features over all endpoint subsets; structural checks of masks (ast)", ref="4/C18, 9.9, 9.10"),
    "C19": dict(text="Column -> aggregator table of the billing aggregation (sum/mean/root-sum-square/first), same frequency variable everywhere, dispatch None/monthly/bimonthly with a rejecting else on every path, aggregation consumes _predict's frame; sibling cross-check of the weighted model.",
                tech="abstract interpretation of both billing predict implementations over aggregation descriptions (column, source frame and every operation applied to it, resample rule, reduction recognised by applying it to a symbol) for every aggregation value x with/without usage; staged aggregations composed exactly (sum/first/RSS compose on nested periods, mean does not); sibling cross-check", ref="4/C19, 9.8, 9.9, 9.10"),
    "C20": dict(text="The frames returned by get_baseline_data/get_reporting_data derive from the input only by label slices whose bounds are the requested limits (never loosened), no expression in the data/control slice of the returned window reads the uncut input (non-interference), the only in-place store targets a fresh copy on every path, dedicated errors on empty selection, gap warnings' conditions; sibling cross-check.",
                tech="reaching definitions + origin analysis + backward data/control slice (ast, CFG)", ref="4/C20"),
}

NA = {
    "C15": "Recovery of a generating curve within 5% NRMSE quantifies over optimiser trajectories and floating-point results of DIRECT+SBPLX on an adaptive-loss objective; no sound static argument in reach bounds it, and any code-shape rule would also fire on behaviour-preserving retuning (DESIGN.md section 6).",
}


def main():
    checks = []
    na = [{"property_id": k, "reason": v} for k, v in sorted(NA.items())]
    for pid in sorted(P):
        if not os.path.isfile(os.path.join(HERE, "rules", pid.lower() + ".py")):
            na.append({"property_id": pid, "reason": "check designed (DESIGN.md section 4) but not built yet in this tree; not claimed until rules/%s.py exists" % pid.lower()})
            continue
        m = P[pid]
        checks.append({
            "property_id": pid,
            "quick_cmd": f"python3-vt /verif/check.py {pid} --tier quick",
            "thorough_cmd": f"python3-vt /verif/check.py {pid} --tier thorough",
            "evidence_file": f"/verif/evidence/{pid}.json",
            "replay_cmd_template": f"python3-vt /verif/check.py {pid} --replay {{path}}",
            "engine": "static-ast",
            "level_claimed": {"category": "other", "text": "Static analysis of /repo's current source (no execution): " + m["text"],
                              "design_ref": "DESIGN.md section " + m["ref"]},
            "level_note": TRUST,
            "technique": m["tech"],
        })
    man = {
        "version": 1,
        "setup_cmd": "python3-vt /verif/tools/setup_check.py",
        "hooks": {
            "guard": "OPENDSM_EEMETER_VERIF",
            "enable": "none needed: the checks read source only; no instrumentation exists in /repo, the guard name is reserved",
            "baseline_off_cmd": BASELINE_OFF,
            "source_commits": [],
            "add_only": True,
        },
        "engines": [{
            "name": "static-ast",
            "path": "/verif/engine",
            "serves_properties": [c["property_id"] for c in checks],
            "kind_free_text": "repository-specific static analysis: ast index, resolved call graph, statement CFG with dominators and guard valuations, reaching definitions / origin analysis, literal evaluation, truth tables, order-domain abstract evaluation, sympy term normalisation; python3-vt, nothing from /repo is imported or executed",
        }],
        "checks": checks,
        "notes": "Exit codes: 0 decided clauses hold (KNOWN-FINDING lines for listed genuine defects), 1 VIOLATION, 2 ANALYSIS-ERROR (anchor vanished / rule floor unmet / checker self-test failed). Known findings: /verif/KNOWN_FINDINGS.txt. Thorough tier = quick rules + the checker's both-ways self-test (selftest/catalogue) on scratch copies.",
        "not_applicable": sorted(na, key=lambda x: x["property_id"]),
    }
    path = os.path.join(HERE, "MANIFEST.json")
    with open(path, "w", encoding="utf-8") as fh:
        json.dump(man, fh, indent=1)
        fh.write("\n")
    try:
        import jsonschema
        with open("/root/.vp/MANIFEST.schema.json") as fh:
            jsonschema.validate(man, json.load(fh))
        print(f"MANIFEST.json written and valid: {len(checks)} checks, {len(na)} not_applicable")
    except ImportError:
        print("MANIFEST.json written (jsonschema unavailable, not validated)")


if __name__ == "__main__":
    main()
